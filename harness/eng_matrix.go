package main

import (
	"strconv"
	"archive/tar"
	"github.com/spf13/afero"
	"bytes"
	"context"
	"encoding/json"
	"errors"
	"fmt"
	"io"
	iofs "io/fs"
	"os"
	"strings"
	"time"

	"github.com/pojntfx/stfs/pkg/compression"
	"github.com/pojntfx/stfs/pkg/config"
	"github.com/pojntfx/stfs/pkg/encryption"
	"github.com/pojntfx/stfs/pkg/recovery"
)

// ---- content generation ---------------------------------------------------------------------

var textWords = strings.Fields("the quick brown fox jumps over the lazy dog while a tape drive spins slowly and records every block of the archive in order")

func genContent(size int, dist string, seed uint64) []byte {
	b := make([]byte, size)
	if strings.HasPrefix(dist, "marker:") {
		// English-like text (compressible) with a unique marker planted in it
		b = genContent(size, "text", seed)
		m := []byte(strings.TrimPrefix(dist, "marker:"))
		if size >= len(m) {
			copy(b[(size-len(m))/3:], m)
		}
		return b
	}
	switch dist {
	case "zeros":
	case "tar":
		// content that is itself a tar stream (a backup stored on the tape), with members named like entries of the tree and
		// carrying STFS action records: whoever parses content as tape structure gets plausible, wrong records
		if size < 1024 {
			return genContent(size, "text", seed)
		}
		r := newRand(seed)
		var tb bytes.Buffer
		tw := tar.NewWriter(&tb)
		names := []string{"/a", "/ab", "a", "/a/a", "/d", "/d/a", "/", "./a", "/x.gz", "/b", "/a_", "/n00", "/docs/secret.txt", "/s1/log"}
		for tb.Len() < size {
			n := names[r.Intn(len(names))]
			body := genContent(r.Intn(900), "text", r.Uint64())
			h := &tar.Header{Typeflag: tar.TypeReg, Name: n, Size: int64(len(body)), Mode: 0o644, ModTime: time.Unix(1600000000+int64(r.Intn(1000)), 0), Format: tar.FormatPAX}
			switch r.Intn(5) {
			case 0:
				h.Typeflag, h.Size, body = tar.TypeDir, 0, nil
			case 1:
				h.PAXRecords = map[string]string{"STFS.Version": "1", "STFS.Action": "DELETE"}
				h.Size, body = 0, nil
			case 2:
				h.PAXRecords = map[string]string{"STFS.Version": "1", "STFS.Action": "CREATE", "STFS.UncompressedSize": fmt.Sprint(len(body))}
			case 3:
				h.PAXRecords = map[string]string{"STFS.Version": "1", "STFS.Action": "UPDATE", "STFS.ReplacesName": names[r.Intn(len(names))]}
				h.Size, body = 0, nil
			}
			if err := tw.WriteHeader(h); err != nil {
				break
			}
			_, _ = tw.Write(body)
			_ = tw.Flush()
		}
		copy(b, tb.Bytes())
	case "text":
		r := newRand(seed)
		i := 0
		for i < size {
			w := textWords[r.Intn(len(textWords))] + " "
			i += copy(b[i:], w)
		}
	default: // random
		r := newRand(seed)
		r.Read(b)
	}
	return b
}

func sizeClasses(rs int) []int {
	return []int{0, 1, 511, 512, 513, rs*512 - 1, rs * 512, rs*512 + 1, 3*rs*512 + 7}
}

var dists = []string{"random", "zeros", "text"}

type memInfo struct {
	name string
	size int64
	mode os.FileMode
	mt   time.Time
}

func (m memInfo) Name() string       { return m.name }
func (m memInfo) Size() int64        { return m.size }
func (m memInfo) Mode() os.FileMode  { return m.mode }
func (m memInfo) ModTime() time.Time { return m.mt }
func (m memInfo) IsDir() bool        { return m.mode.IsDir() }
func (m memInfo) Sys() interface{}   { return nil }

// rsc is an in-memory source. It deliberately exposes only Read/Seek/Close (no io.WriterTo) unless wt is set.
type rsc struct {
	r       *bytes.Reader
	dataEOF bool
}

func (s rsc) Read(p []byte) (int, error) {
	if srcSeams != nil {
		if err := srcSeams.hit("src"); err != nil {
			return 0, err
		}
	}
	n, err := s.r.Read(p)
	if s.dataEOF && err == nil && s.r.Len() == 0 {
		err = io.EOF // the last bytes arrive together with io.EOF, as the io.Reader contract allows (tar readers, stfs's own handles, network bodies do this)
	}
	return n, err
}

// srcSeams, when set, makes reads of harness-supplied archive sources observable/faultable (C10)
var srcSeams *Seams

func (s rsc) Seek(o int64, w int) (int64, error) { return s.r.Seek(o, w) }
func (rsc) Close() error {
	if srcSeams != nil {
		return srcSeams.hit("srcclose")
	}
	return nil
}

// rscWT additionally implements io.WriterTo, as bytes.Reader, strings.Reader and bytes.Buffer based sources do.
type rscWT struct {
	*bytes.Reader
}

func (rscWT) Close() error { return nil }

type bufCloser struct {
	bytes.Buffer
	closed bool
}

func (b *bufCloser) Close() error { b.closed = true; return nil }

var sourceWriterTo = os.Getenv("VERIF_SRC_WRITERTO") != "0"

// membersSrc yields the given members once.
func membersSrc(ms []config.FileConfig) func() (config.FileConfig, error) {
	i := 0
	return func() (config.FileConfig, error) {
		if i >= len(ms) {
			return config.FileConfig{}, io.EOF
		}
		i++
		return ms[i-1], nil
	}
}

func fileMember(p string, content []byte, mode os.FileMode, mt time.Time) config.FileConfig {
	return config.FileConfig{
		GetFile: func() (io.ReadSeekCloser, error) {
			if len(content)%3 == 1 {
				return rsc{r: bytes.NewReader(content), dataEOF: true}, nil // a third of the sources deliver their last bytes with io.EOF
			}
			if sourceWriterTo && srcSeams == nil {
				return rscWT{bytes.NewReader(content)}, nil
			}
			return rsc{r: bytes.NewReader(content)}, nil
		},
		Info:    memInfo{name: p, size: int64(len(content)), mode: mode, mt: mt},
		Path:    p,
	}
}

// staleMember is fileMember with an Info that was taken before the source changed: its Size is off by `stale` bytes (a file that grew
// or shrank between the scan and the read, as with `stfs operation archive` on a live log file).
func staleMember(p string, content []byte, mode os.FileMode, mt time.Time, stale int) config.FileConfig {
	fc := fileMember(p, content, mode, mt)
	sz := int64(len(content) + stale)
	if sz < 0 {
		sz = 0
	}
	fc.Info = memInfo{name: p, size: sz, mode: mode, mt: mt}
	return fc
}

func dirMember(p string, mode os.FileMode, mt time.Time) config.FileConfig {
	return config.FileConfig{Info: memInfo{name: p, mode: mode | os.ModeDir, mt: mt}, Path: p}
}

// restoreBytes reads an entry's content through Operations.Restore.
func restoreBytes(r *Rig, p string) ([]byte, error) {
	stepBegin()
	var out *bufCloser
	err := r.ROps.Restore(
		func(path string, mode iofs.FileMode) (io.WriteCloser, error) {
			out = &bufCloser{}
			return out, nil
		},
		func(path string, mode iofs.FileMode) error { return nil },
		p, "", true,
	)
	if err != nil {
		return nil, err
	}
	if out == nil {
		return nil, errors.New("restore never asked for a destination")
	}
	return out.Bytes(), nil
}

// fetchBytes reads the record at (record, block) through recovery.Fetch.
func fetchBytes(r *Rig, record, block int64) ([]byte, error) {
	// the harness uses the backend directly here, outside the Operations lock: wait until a restore goroutine that is
	// still closing its reader (File.Read returns before it is done) has released the drive, or we would share its reader
	r.LocksSettled()
	stepBegin()
	rd, err := r.BE.GetReader()
	if err != nil {
		return nil, err
	}
	defer r.BE.CloseReader()
	var out *bufCloser
	err = recovery.Fetch(rd, r.BE.MagneticTapeIO, r.Pipes, r.RC,
		func(path string, mode iofs.FileMode) (io.WriteCloser, error) {
			out = &bufCloser{}
			return out, nil
		},
		func(path string, mode iofs.FileMode) error { return nil },
		int(record), int(block), "x", false, nil)
	if err != nil {
		return nil, err
	}
	if out == nil {
		return nil, errors.New("fetch never asked for a destination")
	}
	return out.Bytes(), nil
}

func isUnsupportedErr(err error) bool {
	for _, e := range []error{config.ErrCompressionFormatRegularOnly, config.ErrCompressionFormatRequiresLargerRecordSize, config.ErrSignatureFormatRegularOnly} {
		if errors.Is(err, e) {
			return true
		}
	}
	return false
}

// expectUnsupported: combinations the code documents as unsupported on non-regular drives.
func expectUnsupported(c Cfg) bool {
	if !c.TapeMode {
		return false
	}
	if c.Sig == config.SignatureFormatMinisignKey {
		return true
	}
	switch c.Comp {
	case config.CompressionFormatParallelGZipKey, config.CompressionFormatBrotliKey:
		return true
	case config.CompressionFormatGZipKey, config.CompressionFormatLZ4Key:
		return true // may be rejected depending on the record size; accepted either way
	}
	return false
}

// ---- C03 -----------------------------------------------------------------------------------

type matrixP struct {
	Cfg Cfg `json:"cfg"`
	Big int `json:"big,omitempty"` // additionally one file of this many bytes, written in several Write calls
	Far bool `json:"far,omitempty"` // sparse filler members (as a standard tar writer appends them) push later records beyond byte 2^31 and 2^32 of the tape
}

// appendSparseMember appends one regular tar member of the given size to the drive the way `tar -r` would, without writing its
// content: the file is extended (sparse), so positions behind it are real while the tape costs no memory.
func appendSparseMember(drive, name string, size int64) error {
	var hb bytes.Buffer
	tw := tar.NewWriter(&hb)
	if err := tw.WriteHeader(&tar.Header{Typeflag: tar.TypeReg, Name: name, Size: size, Mode: 0o644, ModTime: time.Unix(1650000000, 0), Format: tar.FormatPAX}); err != nil {
		return err
	}
	f, err := os.OpenFile(drive, os.O_WRONLY|os.O_APPEND, 0)
	if err != nil {
		return err
	}
	defer f.Close()
	if _, err := f.Write(hb.Bytes()); err != nil { // header block(s) only: the writer is abandoned before its content
		return err
	}
	st, err := f.Stat()
	if err != nil {
		return err
	}
	return f.Truncate(st.Size() + (size+511)/512*512)
}

func allPipelines() []Cfg {
	var out []Cfg
	for _, comp := range config.KnownCompressionFormats {
		for _, enc := range config.KnownEncryptionFormats {
			for _, sig := range config.KnownSignatureFormats {
				for _, lvl := range config.KnownCompressionLevels {
					out = append(out, Cfg{Comp: comp, Level: lvl, Enc: enc, Sig: sig})
				}
			}
		}
	}
	return out
}

func c03Cases(prop, tier string, seed uint64) []Case {
	r := newRand(subSeed(seed, prop, tier))
	pipes := allPipelines() // 216
	rss := []int{1, 2, 3, 7, 20, 64}
	wcs := []string{config.WriteCacheTypeFile, config.WriteCacheTypeMemory}
	var cfgs []Cfg
	if tier == "thorough" {
		for i, p := range pipes {
			for j, wc := range wcs {
				c := p
				c.WC = wc
				c.RS = rss[(i+j*3+int(seed))%len(rss)]
				cfgs = append(cfgs, c)
			}
		}
		// every record size with every compression format at least once, both caches
		for i, comp := range config.KnownCompressionFormats {
			for j, rs := range rss {
				cfgs = append(cfgs, Cfg{Comp: comp, Level: config.KnownCompressionLevels[(i+j)%3], Enc: config.KnownEncryptionFormats[(i+j)%3], Sig: config.KnownSignatureFormats[(i+2*j)%3], RS: rs, WC: wcs[(i+j)%2]})
			}
		}
		// tape-mode writer: codec parameters for non-regular drives
		for i, comp := range config.KnownCompressionFormats {
			for _, rs := range []int{20, 128, 256, 1024} {
				cfgs = append(cfgs, Cfg{Comp: comp, Level: config.KnownCompressionLevels[i%3], Enc: config.KnownEncryptionFormats[(i+rs)%3], Sig: []string{"", "pgp", "minisign"}[(i+rs/20)%3], RS: rs, WC: wcs[i%2], TapeMode: true})
			}
		}
	} else {
		// every compression, encryption, signature format and level at least once; PRNG-chosen rest
		seen := map[string]bool{}
		add := func(c Cfg) {
			k := c.String()
			if !seen[k] {
				seen[k] = true
				cfgs = append(cfgs, c)
			}
		}
		add(Cfg{Level: "fastest", RS: 20, WC: "file"})
		// every compression format with every encryption format (each pair wires a decompressor to a decrypting reader)
		for i, comp := range config.KnownCompressionFormats {
			for j, enc := range config.KnownEncryptionFormats {
				add(Cfg{Comp: comp, Level: config.KnownCompressionLevels[(i+j)%3], Enc: enc, Sig: config.KnownSignatureFormats[(i+2*j)%3], RS: rss[(i+j)%len(rss)], WC: wcs[(i+j)%2]})
			}
		}
		for i, comp := range config.KnownCompressionFormats {
			add(Cfg{Comp: comp, Level: config.KnownCompressionLevels[i%3], Enc: config.KnownEncryptionFormats[(i+1)%3], Sig: config.KnownSignatureFormats[(i+2)%3], RS: rss[i%len(rss)], WC: wcs[i%2]})
		}
		for len(cfgs) < 110 {
			p := pipes[r.Intn(len(pipes))]
			p.RS = rss[r.Intn(len(rss))]
			p.WC = wcs[r.Intn(2)]
			add(p)
		}
		for i, comp := range []string{"", "gzip", "lz4", "zstandard", "bzip2", "brotli"} {
			add(Cfg{Comp: comp, Level: config.KnownCompressionLevels[i%3], Enc: config.KnownEncryptionFormats[i%3], Sig: []string{"", "pgp", "minisign"}[i%3], RS: []int{128, 256, 20}[i%3], WC: wcs[i%2], TapeMode: true})
		}
	}
	var cases []Case
	// positions: tapes of more than 4 GiB (sparse) under plain configurations - foreign filler members can only sit on unencrypted, unsigned tapes
	farN := 1
	if tier == "thorough" {
		farN = 4
	}
	for i := 0; i < farN; i++ {
		fc := Cfg{Level: "fastest", RS: []int{20, 2048, 1, 64}[i], WC: wcs[i%2]}
		if i == 3 {
			fc.Comp = "gzip"
		}
		pb, _ := json.Marshal(matrixP{Cfg: fc, Far: true})
		cases = append(cases, Case{ID: fmt.Sprintf("c03-far-%d-%s", i, fc.String()), Seed: subSeed(seed, prop, "far", fmt.Sprint(i)), P: pb})
	}
	bigs := []int{70001, 1<<20 + 3, 8<<20 + 12345}
	for i, c := range cfgs {
		mp := matrixP{Cfg: c}
		// size thresholds (pipe buffers, codec windows, verification buffers): a few configurations also carry a big file
		every := 9
		if tier == "thorough" {
			every = 5
		}
		if i%every == 1 && !c.TapeMode {
			mp.Big = bigs[(i/every)%len(bigs)]
		}
		pb, _ := json.Marshal(mp)
		cases = append(cases, Case{ID: fmt.Sprintf("c03-%03d-%s", i, c.String()), Seed: subSeed(seed, prop, tier, fmt.Sprint(i)), P: pb})
	}
	return cases
}

func c03Run(prop, tier string, c Case, w *Worker) (res Result) {
	var p matrixP
	_ = json.Unmarshal(c.P, &p)
	cfg := p.Cfg
	res.Key = cfg.String()
	res.setAdd("configs", cfg.String())
	res.setAdd("compression", cfg.Comp+"/"+cfg.Level)
	res.setAdd("encryption", cfg.Enc)
	res.setAdd("signature", cfg.Sig)
	res.setAdd("recordsize", fmt.Sprint(cfg.RS))
	dir := w.NewDir("c03")
	rig, err := NewRig(dir, cfg)
	if err != nil {
		res.Verdict = "inconclusive"
		res.Msg = "rig: " + err.Error()
		return
	}
	defer func() { rig.Close() }()
	if err := rig.Init(); err != nil {
		if expectUnsupported(cfg) && isUnsupportedErr(err) {
			if held := rig.LocksSettled(); len(held) > 0 {
				res.violate("c03|locks", fmt.Sprintf("[%s] locks held after rejected Initialize: %v", cfg, held))
				return
			}
			res.count("configs_rejected_as_unsupported", 1)
			res.NonTrivial = true
			res.Sample = map[string]any{"cfg": cfg.String(), "rejected": err.Error()}
			return
		}
		res.violate("c03|init", fmt.Sprintf("Initialize failed under %s: %v", cfg, err))
		return
	}
	type item struct {
		path    string
		content []byte
		how     string
	}
	var items []item
	rejected := 0
	sizes := sizeClasses(cfg.RS)
	mt := time.Unix(1700000000, 0)
	fail := func(sig, format string, a ...any) {
		res.violate("c03|"+sig, fmt.Sprintf("[%s] ", cfg)+fmt.Sprintf(format, a...))
		res.Detail = map[string]any{"cfg": cfg}
	}
	// 1. write through the filesystem
	for i, sz := range sizes {
		content := genContent(sz, dists[(i+int(c.Seed%3))%3], subSeed(c.Seed, "fs", fmt.Sprint(i)))
		name := fmt.Sprintf("/f%d", i)
		h, err := rig.FS.Create(name)
		if err != nil {
			fail("fs-create", "Create(%s): %v", name, err)
			return
		}
		var werr error
		if sz > 0 || i%2 == 0 { // size 0: once with an explicit empty write, and (below) once with no write at all
			_, werr = h.Write(content)
		}
		cerr := h.Close()
		if werr != nil || cerr != nil {
			e := werr
			if e == nil {
				e = cerr
			}
			if expectUnsupported(cfg) && isUnsupportedErr(e) {
				rejected++
				res.count("writes_rejected_unsupported", 1)
				continue
			}
			fail("fs-write", "write/close of %s (%d bytes): write=%v close=%v", name, sz, werr, cerr)
			return
		}
		items = append(items, item{name, content, "fs"})
	}
	// far: a standard tar writer appends a huge member; the index is rebuilt from the tape (an index that has not seen foreign
	// records is the shape of the open finding stale-index-open) and the instance continues behind it
	farExtend := func(name string, size int64) bool {
		rig.LocksSettled()
		rig.Close()
		if err := appendSparseMember(rig.Drive, name, size); err != nil {
			res.Verdict, res.Msg = "inconclusive", "sparse member: "+err.Error()
			return false
		}
		_ = os.Remove(rig.DB)
		nr, err := NewRig(dir, cfg)
		if err != nil {
			res.Verdict, res.Msg = "inconclusive", "rig: "+err.Error()
			return false
		}
		rig = nr
		if err := rig.Init(); err != nil {
			fail("far-reopen", "opening the tape (index absent) after a %d-byte member was appended by a tar writer: %v", size, err)
			return false
		}
		res.count("sparse_fillers", 1)
		return true
	}
	if p.Far {
		stepBudget.Store(40 * stepBudgetDefault) // the indexer reads through 4 GiB of member content in 8 KiB pieces
		defer stepBudget.Store(stepBudgetDefault)
	}
	if p.Far && !farExtend("/filler-1", farSize(1<<31+5<<20+77)) {
		return
	}
	if !cfg.TapeMode {
		// every configuration: one incompressible file that spans several codec blocks (bzip2 blocks of 100k at the fastest level,
		// lz4 / zstandard blocks, the 64 KiB chunks of age, partial-length OpenPGP packets)
		content := genContent(330001, "random", subSeed(c.Seed, "medium"))
		if err := afero.WriteFile(rig.FS, "/medium", content, 0o644); err != nil {
			fail("fs-write", "WriteFile(/medium, %d bytes): %v", len(content), err)
			return
		}
		items = append(items, item{"/medium", content, "fs"})
		res.count("medium_files", 1)
	}
	if !cfg.TapeMode && cfg.Comp != "" {
		// every compressing configuration: one file of more than 3 MiB that compresses by far more than 1000:1 (zeros, or one
		// short phrase repeated): what is stored is a few hundred bytes, what has to come back is every byte
		content := make([]byte, 3<<20+1)
		if c.Seed%2 == 0 {
			phrase := []byte("all work and no play makes jack a dull boy; ")
			for i := range content {
				content[i] = phrase[i%len(phrase)]
			}
		}
		if err := afero.WriteFile(rig.FS, "/squeezed", content, 0o644); err != nil {
			fail("fs-write", "WriteFile(/squeezed, %d bytes): %v", len(content), err)
			return
		}
		items = append(items, item{"/squeezed", content, "fs"})
		res.count("highly_compressible_files_over_3MiB", 1)
	}
	if p.Big > 0 {
		content := genContent(p.Big, dists[int(c.Seed%3)], subSeed(c.Seed, "big"))
		h, err := rig.FS.Create("/big")
		if err != nil {
			fail("fs-create", "Create(/big): %v", err)
			return
		}
		// many Write calls of uneven sizes
		for off, k := 0, 0; off < len(content); k++ {
			n := []int{1, 4096, 65536, 1000003, 7}[k%5]
			if off+n > len(content) {
				n = len(content) - off
			}
			if _, err := h.Write(content[off : off+n]); err != nil {
				fail("fs-write", "Write #%d of /big: %v", k, err)
				return
			}
			off += n
		}
		if err := h.Close(); err != nil {
			fail("fs-write", "Close of /big (%d bytes): %v", p.Big, err)
			return
		}
		items = append(items, item{"/big", content, "fs-chunked"})
		res.count("big_files", 1)
		res.setAdd("big_sizes", fmt.Sprint(p.Big))
	}
	{ // created and closed without any write
		h, err := rig.FS.Create("/empty-nowrite")
		if err != nil {
			fail("fs-create", "Create(/empty-nowrite): %v", err)
			return
		}
		if err := h.Close(); err != nil {
			fail("fs-write", "close of never-written file: %v", err)
			return
		}
		items = append(items, item{"/empty-nowrite", []byte{}, "fs-nowrite"})
	}
	if p.Far && !farExtend("/filler-2", farSize(1<<31+3<<20+512)) {
		return
	}
	// 2. write through the archive interface (batched), then replace some through Update
	var ms []config.FileConfig
	var opsItems []item
	for i, sz := range sizes {
		content := genContent(sz, dists[(i+1+int(c.Seed%3))%3], subSeed(c.Seed, "ops", fmt.Sprint(i)))
		name := fmt.Sprintf("/o%d", i)
		switch {
		case i%4 == 2 && sz > 0:
			ms = append(ms, staleMember(name, content, 0o640, mt, 9)) // the source grew after it was scanned
			res.count("members_with_stale_size", 1)
		case i%4 == 3 && sz > 7:
			ms = append(ms, staleMember(name, content, 0o640, mt, -7)) // ... or shrank
			res.count("members_with_stale_size", 1)
		default:
			ms = append(ms, fileMember(name, content, 0o640, mt))
		}
		opsItems = append(opsItems, item{name, content, "archive"})
	}
	if _, err := rig.WOps.Archive(membersSrc(ms), cfg.Level, false, false); err != nil {
		if expectUnsupported(cfg) && isUnsupportedErr(err) {
			rejected++
			res.count("writes_rejected_unsupported", 1)
			opsItems = nil
		} else {
			fail("ops-archive", "Operations.Archive of %d members: %v", len(ms), err)
			return
		}
	}
	if held := rig.LocksSettled(); len(held) > 0 {
		fail("locks", "locks still held after Archive: %v", held)
		return
	}
	for i := range opsItems {
		if i%3 != 1 {
			continue
		}
		nc := genContent(sizes[(i+4)%len(sizes)], dists[i%3], subSeed(c.Seed, "upd", fmt.Sprint(i)))
		if _, err := rig.WOps.Update(membersSrc([]config.FileConfig{fileMember(opsItems[i].path, nc, 0o640, mt)}), cfg.Level, true, false); err != nil {
			fail("ops-update", "Operations.Update(%s, %d bytes): %v", opsItems[i].path, len(nc), err)
			return
		}
		if len(nc) > 0 { // Update with replace skips zero-size sources unless told otherwise: content then stays
			opsItems[i].content = nc
			opsItems[i].how = "update"
		}
	}
	items = append(items, opsItems...)

	if cfg.TapeMode {
		// A regular file cannot be read back in tape mode (no st driver here) and reading tape-mode output in regular mode is not a
		// configuration stfs supports; so the tape-mode writer is judged by an independent scan of what it wrote, decoded with the
		// standard decoders: every content record must decode to the bytes that were written.
		if held := rig.LocksSettled(); len(held) > 0 {
			fail("locks", "locks still held after tape-mode writes: %v", held)
			return
		}
		img, err := os.ReadFile(rig.Drive)
		if err != nil {
			res.Verdict = "inconclusive"
			res.Msg = err.Error()
			return
		}
		recs, _, err := ScanTape(img, cfg, &cryptoView{EncIdentity: rig.RC.Identity})
		if err != nil {
			fail("tape-scan", "tape written in tape mode is not a well-formed tar stream: %v", err)
			return
		}
		last := map[string]TapeRec{}
		for _, rc := range recs {
			if rc.Inner == nil {
				fail("tape-decode", "record at %d cannot be decoded: %s", rc.Off, rc.DecodeErr)
				return
			}
			if _, ok := rc.Inner.PAXRecords["STFS.UncompressedSize"]; ok {
				last[rc.Inner.Name] = rc
			}
		}
		decoded := 0
		for _, it := range items {
			if len(it.content) == 0 {
				continue
			}
			sn := it.path + codecSuffix(cfg.Comp, cfg.Enc)
			rc, ok := last[sn]
			if !ok {
				fail("tape-missing", "no content record named %s on the tape for %s [%s]", sn, it.path, it.how)
				return
			}
			raw := img[rc.ContentOff : rc.ContentOff+rc.ContentLen]
			dr, err := encryption.Decrypt(bytes.NewReader(raw), cfg.Enc, rig.RC.Identity)
			if err != nil {
				fail("tape-decrypt", "content of %s: %v", sn, err)
				return
			}
			zr, err := compression.Decompress(dr, cfg.Comp)
			if err != nil {
				fail("tape-decompress", "content of %s: %v", sn, err)
				return
			}
			got, err := io.ReadAll(zr)
			if err != nil {
				fail("tape-decompress", "content of %s: %v", sn, err)
				return
			}
			if !bytes.Equal(got, it.content) {
				fail("tape-bytes", "content record %s decodes to %d bytes (sum %s), wrote %d (sum %s)", sn, len(got), sum(got), len(it.content), sum(it.content))
				return
			}
			decoded++
		}
		res.count("tapemode_records_decoded", int64(decoded))
		res.count("files_roundtripped", int64(len(items)))
		res.NonTrivial = decoded >= 5
		if rejected > 0 {
			res.count("configs_with_rejected_writes", 1)
			res.NonTrivial = true
		}
		res.Sample = map[string]any{"cfg": cfg.String(), "files": len(items), "decoded_from_tape": decoded, "rejected_writes": rejected}
		return
	}

	// 3. read back through three paths
	check := func(rg *Rig, phase string) bool {
		for _, it := range items {
			fi, err := rg.FS.Stat(it.path)
			if err != nil {
				fail("stat", "%s: Stat(%s) [%s]: %v", phase, it.path, it.how, err)
				return false
			}
			if fi.Size() != int64(len(it.content)) {
				fail("size", "%s: Stat(%s).Size()=%d, content length %d [%s]", phase, it.path, fi.Size(), len(it.content), it.how)
				return false
			}
			b, err := ReadAllFile(rg.FS, it.path)
			if err != nil {
				fail("fs-read", "%s: reading %s (%d bytes, %s) through the filesystem: %v", phase, it.path, len(it.content), it.how, err)
				return false
			}
			if !bytes.Equal(b, it.content) {
				fail("fs-bytes", "%s: %s read back %d bytes (sum %s), wrote %d (sum %s) [%s]", phase, it.path, len(b), sum(b), len(it.content), sum(it.content), it.how)
				return false
			}
			res.count("reads_fs", 1)
			if L := len(it.content); L > 2 {
				// one positioned read of most of the file (io.ReaderAt: a range that lies inside the file comes back whole, err nil)
				off, end := L/7, L-L/9
				h, err := rg.FS.Open(it.path)
				if err != nil {
					fail("fs-read", "%s: Open(%s): %v", phase, it.path, err)
					return false
				}
				stepBegin()
				buf := make([]byte, end-off)
				n, rerr := h.ReadAt(buf, int64(off))
				_ = h.Close()
				if n != len(buf) || (rerr != nil && !(rerr == io.EOF && end == L)) || !bytes.Equal(buf, it.content[off:end]) {
					fail("fs-readat", "%s: %s (%d bytes, %s): ReadAt(len %d, off %d) returned n=%d err=%v, bytes equal=%v", phase, it.path, L, it.how, len(buf), off, n, rerr, bytes.Equal(buf[:n], it.content[off:off+n]))
					return false
				}
				res.count("reads_fs_positioned", 1)
			}
			rb, err := restoreBytes(rg, it.path)
			if err != nil {
				fail("restore", "%s: Operations.Restore(%s) (%d bytes, %s): %v", phase, it.path, len(it.content), it.how, err)
				return false
			}
			if !bytes.Equal(rb, it.content) {
				fail("restore-bytes", "%s: Restore(%s) returned %d bytes (sum %s), wrote %d (sum %s)", phase, it.path, len(rb), sum(rb), len(it.content), sum(it.content))
				return false
			}
			res.count("reads_restore", 1)
			hd, err := rg.MP.GetHeader(context.Background(), it.path)
			if err != nil {
				fail("row", "%s: no index row for %s: %v", phase, it.path, err)
				return false
			}
			fb, err := fetchBytes(rg, hd.Record, hd.Block)
			if err != nil {
				fail("fetch", "%s: recovery.Fetch(%d,%d) for %s (%d bytes, %s): %v", phase, hd.Record, hd.Block, it.path, len(it.content), it.how, err)
				return false
			}
			if !bytes.Equal(fb, it.content) {
				fail("fetch-bytes", "%s: Fetch(%d,%d) for %s returned %d bytes, wrote %d", phase, hd.Record, hd.Block, it.path, len(fb), len(it.content))
				return false
			}
			res.count("reads_fetch", 1)
			if held := rg.LocksSettled(); len(held) > 0 {
				fail("locks", "%s: locks still held after reading %s: %v", phase, it.path, held)
				return false
			}
		}
		return true
	}
	if !check(rig, "live") {
		return
	}
	// the same through a rebuilt instance (fresh index from the tape alone)
	dir2 := w.NewDir("c03r")
	if err := CloneDir(dir, dir2, false); err != nil {
		res.Verdict = "inconclusive"
		res.Msg = err.Error()
		return
	}
	c2 := cfg
	c2.TapeMode = false
	rig2, err := NewRig(dir2, c2)
	if err != nil {
		res.Verdict = "inconclusive"
		res.Msg = "rig2: " + err.Error()
		return
	}
	defer rig2.Close()
	if err := rig2.Init(); err != nil {
		fail("rebuild-init", "Initialize over the written tape failed: %v", err)
		return
	}
	if !check(rig2, "rebuilt") {
		return
	}
	nonEmpty := 0
	for _, it := range items {
		if len(it.content) > 0 {
			nonEmpty++
		}
	}
	res.count("files_roundtripped", int64(len(items)))
	res.count("bytes_roundtripped", func() (n int64) {
		for _, it := range items {
			n += int64(len(it.content))
		}
		return
	}())
	res.NonTrivial = nonEmpty >= 5
	if rejected > 0 && len(items) <= 1 {
		res.count("configs_rejected_as_unsupported", 1)
	}
	res.Sample = map[string]any{"cfg": cfg.String(), "files": len(items), "sizes": sizes, "rejected_writes": rejected}
	return
}

func init() {
	register(&Engine{Name: "matrix-c03", Props: []string{"C03"}, Cases: c03Cases, Run: c03Run})
	propMeta["C03"] = PropMeta{
		Level: "exploration",
		Rule:  "one case per pipeline configuration (compression x level x encryption x signature x record size x write cache x drive-kind flag); each writes 9 size classes (0,1,511,512,513,record-1,record,record+1,3 records+7; zeros/random/text) through the filesystem and 9 through Operations.Archive (some replaced through Update), plus a never-written file, and reads every file back through File.Read, Operations.Restore and recovery.Fetch on the live and on a rebuilt instance; non-trivial = at least 5 non-empty files round-tripped; distinct = distinct configuration; every configuration also carries one incompressible 330001-byte file (several codec blocks) and every compression x encryption pair is in the quick tier; a third of the batched members have an Info.Size() that is off by +9 / -7 bytes (source changed after the scan: the recorded size has to be the content's); 'far' cases: two sparse members of 2 GiB each are appended the way a tar writer would, the index is rebuilt, and files written behind byte 2^31 and 2^32 of the tape are read back through all three paths; every file is also read with ONE positioned read covering most of it (full count, nil error); every compressing configuration also carries one file of 3 MiB + 1 that compresses by more than 1000:1 (zeros, or a repeated phrase)",
		Assumptions: []string{
			"tape-mode codec parameters are exercised by handing the writer DriveIsRegular=false over a regular file; a real tape device is not available",
			"contents are bounded by 3 records + 7 bytes (<= ~1.5 MiB at record size 1024)",
		},
	}
}

// codecSuffix is the harness's own statement of the on-tape name suffix for content records.
func codecSuffix(comp, enc string) string {
	s := ""
	switch comp {
	case "gzip", "parallelgzip":
		s += ".gz"
	case "lz4":
		s += ".lz4"
	case "zstandard":
		s += ".zst"
	case "brotli":
		s += ".br"
	case "bzip2", "parallelbzip2":
		s += ".bz2"
	}
	switch enc {
	case "age":
		s += ".age"
	case "pgp":
		s += ".pgp"
	}
	return s
}

// farSize lets a debugging run shrink the sparse fillers (VERIF_FAR_SIZE bytes); unset, the real sizes are used.
func farSize(n int64) int64 {
	if v := os.Getenv("VERIF_FAR_SIZE"); v != "" {
		if x, err := strconv.ParseInt(v, 10, 64); err == nil {
			return x + n%1024
		}
	}
	return n
}
