package main

import (
	"os/exec"
	"github.com/spf13/afero"
	"time"
	"archive/tar"
	"bytes"
	"encoding/json"
	"fmt"
	"os"
	"path"
	"sort"
	"strings"

	"github.com/pojntfx/stfs/pkg/config"
)

type seqP struct {
	Exotic  bool     `json:"exotic,omitempty"`
	Twins   bool     `json:"twins,omitempty"`
	Reopen  int      `json:"reopen,omitempty"` // every Reopen-th call is made by a NEW instance over the same tape and index (process restart): nothing a call relies on may live only in the old instance
	Root    string   `json:"root,omitempty"` // C17: the drive starts as a foreign archive holding only a top-level directory of this name
	RootFmt string   `json:"rootfmt,omitempty"`
	Cfg     Cfg      `json:"cfg"`
	Steps   int      `json:"steps"`
	Comps   []string `json:"comps,omitempty"`
	Witness string   `json:"witness,omitempty"`
	Ops     []Op     `json:"ops,omitempty"` // fixed op list (witness cases, replays)
}

func someCfgs(r interface{ Intn(int) int }, n int) []Cfg {
	rss := []int{1, 2, 3, 7, 20, 64}
	wcs := []string{"file", "memory"}
	out := []Cfg{{Level: "fastest", RS: 20, WC: "file"}}
	// always at least one with each of compression / encryption / signature on
	out = append(out,
		Cfg{Comp: "gzip", Level: "fastest", RS: 3, WC: "memory"},
		Cfg{Enc: "age", Level: "balanced", RS: 7, WC: "file"},
		Cfg{Sig: "minisign", Level: "fastest", RS: 2, WC: "file"},
		Cfg{Comp: "zstandard", Enc: "pgp", Sig: "pgp", Level: "smallest", RS: 1, WC: "memory"},
		Cfg{Level: "fastest", RS: 1, WC: "memory"},
	)
	for len(out) < n {
		out = append(out, Cfg{
			Comp:  config.KnownCompressionFormats[r.Intn(8)],
			Level: config.KnownCompressionLevels[r.Intn(3)],
			Enc:   config.KnownEncryptionFormats[r.Intn(3)],
			Sig:   config.KnownSignatureFormats[r.Intn(3)],
			RS:    rss[r.Intn(len(rss))],
			WC:    wcs[r.Intn(2)],
		})
	}
	return out[:n]
}

func seqCases(prop, tier string, seed uint64) []Case {
	r := newRand(subSeed(seed, prop, tier))
	n, steps, ncfg := 1200, 20, 12
	if tier == "thorough" {
		n, steps, ncfg = 16000, 40, 80
	}
	switch prop {
	case "C01":
		n, steps = 600, 18
		if tier == "thorough" {
			n, steps = 6000, 36
		}
	case "C07":
		n, steps = 400, 14
		if tier == "thorough" {
			n, steps = 4000, 30
		}
	case "C04":
		n, steps = 800, 20
		if tier == "thorough" {
			n, steps = 15000, 40
		}
	case "C13", "C05", "C12":
		// the per-call monitors of these three walk rows, handles or the whole tape after every call: fewer quick histories keep the quick tier near a minute
		if tier != "thorough" {
			n = 800
		}
	}
	cfgs := someCfgs(r, ncfg)
	if prop == "C04" {
		// position arithmetic: record sizes that are not in the usual list, not powers of two, and larger than a block has bytes
		for i, rs := range []int{5, 6, 10, 100, 512, 513, 1000, 1024, 2048} {
			c := cfgs[i%len(cfgs)]
			c.RS = rs
			cfgs = append(cfgs, c)
		}
	}
	if prop == "C05" {
		// the content clause of C05 is stated for no compression and no encryption: half of the cases are plain
		for i := range cfgs {
			if i%2 == 0 {
				cfgs[i].Comp, cfgs[i].Enc = "", ""
			}
		}
	}
	var cases []Case
	if prop == "C07" {
		for k := 0; k < 2; k++ {
			cases = append(cases, Case{ID: fmt.Sprintf("c07-two-trees-%d", k), Seed: uint64(k), Kind: "two-trees", P: json.RawMessage("{}")})
		}
	}
	if prop == "C05" {
		cases = append(cases, Case{ID: "c05-witness-rsa-recipient", Seed: 5, Kind: "witness:rsa-recipient", P: json.RawMessage("{}")})
	}
	for _, wc := range witnessCases(prop) {
		cases = append(cases, wc)
	}
	if prop == "C13" || prop == "C12" {
		cases = append(cases, shapeCases(prop, tier, cfgs)...)
	}
	if prop == "C01" || prop == "C02" || prop == "C04" || prop == "C13" {
		// quantity: thousands of entries written in one batch, removed again (as many tombstones and DELETE records), then ordinary calls
		nb := 1300
		if tier == "thorough" {
			nb = 5000
		}
		ms := []Op{{K: "dir", A: "/bulk", Perm: 0o755}}
		for i := 0; i < nb; i++ {
			ms = append(ms, Op{K: "file", A: fmt.Sprintf("/bulk/e%05d", i), Perm: 0o644, Len: (i % 7) * 3, Dist: "text", DSeed: uint64(i)})
		}
		ops := []Op{{K: "create", A: "/old.txt", Len: 9, Dist: "text", DSeed: 1}, {K: "archive", Members: ms, DSeed: 9}, {K: "list", A: "/bulk", N: -1}, {K: "removeall", A: "/bulk"},
			{K: "remove", A: "/old.txt"}, {K: "create", A: "/new.txt", Len: 5, Dist: "text", DSeed: 2}, {K: "create", A: "/newer.txt", Len: 700, Dist: "text", DSeed: 3}, {K: "chmod", A: "/new.txt", Perm: 0o600}, {K: "read", A: "/newer.txt"}}
		pb, _ := json.Marshal(seqP{Cfg: Cfg{Level: "fastest", RS: 20, WC: "file"}, Ops: ops})
		cases = append(cases, Case{ID: strings.ToLower(prop) + "-bulk", Seed: 5, Kind: "random", P: pb})
	}
	if prop == "C02" {
		// scale: one file whose length needs more than 31 bits (create, sparse write, close, stat, positioned reads, rebuild)
		pb, _ := json.Marshal(handP{Cfg: Cfg{Level: "fastest", RS: 20, WC: "file"}, Init: -1, Giant: int64(1)<<31 + 1025})
		cases = append(cases, Case{ID: "c02-giant", Seed: 3, Kind: "giant", P: pb})
	}
	for i := 0; i < n; i++ {
		cfg := cfgs[i%len(cfgs)]
		st := steps/2 + r.Intn(steps/2+1)
		p := seqP{Cfg: cfg, Steps: st, Exotic: i%3 == 2}
		if i%6 == 1 && (prop == "C01" || prop == "C04" || prop == "C05" || prop == "C07") {
			// metadata twins: few names, every batched member with one size / mode / modification time
			p.Twins = true
			p.Comps = []string{"a", "b", "c"}
		}
		if prop == "C05" && i%8 == 7 {
			p.Cfg.Overwrite = true
		}
		if i%5 == 4 && prop != "C07" {
			p.Reopen = 1 + r.Intn(4)
		}

		if i%48 == 47 && prop != "C07" && prop != "C01" {
			// long histories over many names: wide directories (dozens of children), tapes of hundreds of records
			p.Steps = st * 5
			for k := 0; k < 40; k++ {
				p.Comps = append(p.Comps, fmt.Sprintf("n%02d", k))
			}
			p.Comps = append(p.Comps, "a", "ab", "a_", "a%")
		} else if prop == "C12" {
			p.Comps = []string{"a", "ab", "a_", "a%", "a b", "a.b", "ä", "aä", "%", "_", "[ab]", "a[", "a*", "a?", ".a", "A", "AB", "A_", "x.gz", "y.zst", "z.age", "w.pgp", "v.lz4", "u.bz2", "t.br", "\U0001F600", "\U0001F3B5 b", "\uffff", "\uff5e"} // the last four: characters outside the BMP (lead byte 0xF0) and at its upper end - above any bound a byte-wise range scan might use
		}
		pb, _ := json.Marshal(p)
		cases = append(cases, Case{ID: fmt.Sprintf("%s-h%04d", strings.ToLower(prop), i), Seed: subSeed(seed, prop, tier, fmt.Sprint(i)), Kind: "random", P: pb})
	}
	return cases
}

// ---- monitors ------------------------------------------------------------------------------

type hist struct {
	prop   string
	w      *Worker
	rig    *Rig
	cfg    Cfg
	model  *Model
	inSync bool // model and implementation have agreed on every outcome so far
	tree   Tree
	res    *Result
	kind   string
	ops    []Op
	outs   []Outcome
	step   int
	held   map[string]afero.File // C13: directory handles kept open across calls
}

func (h *hist) violate(sig, format string, a ...any) {
	msg := fmt.Sprintf(format, a...)
	h.res.violate(strings.ToLower(h.prop)+"|"+h.kind+"|"+sig, fmt.Sprintf("[%s] step %d %s: %s", h.cfg, h.step, h.ops[len(h.ops)-1], msg))
}

func opNames(ops []Op) []string {
	var s []string
	for _, o := range ops {
		s = append(s, o.String())
	}
	return s
}

func lookupKind(k string) bool { return k == "stat" || k == "read" || k == "list" }

// c02Check compares one call with the reference model: outcome, returned data, and the full tree.
func (h *hist) c02Check(op Op, out Outcome, mo MOut, mexp Outcome) bool {
	if mo.Amb {
		if out.OK && op.K == "rename" && op.A != op.B {
			if _, isDir := h.model.N[op.B]; isDir {
				h.model.RenameReplaceEmptyDir(op.A, op.B)
			}
		}
		h.res.count("ambiguous_calls", 1)
	} else {
		if out.OK != mo.OK {
			if mo.OK {
				h.violate(op.K+"|want=ok|got=fail", "reference succeeds, stfs failed in %s: %s", out.Phase, out.Err)
			} else {
				h.violate(op.K+"|want=fail|got=ok", "reference fails (%s), stfs succeeded", mo.Why)
			}
			return false
		}
		if !mo.OK && mo.NotExist && lookupKind(op.K) && !out.NotExist {
			h.violate(op.K+"|errclass", "lookup of a missing name must fail with a not-exist error, got %q", out.Err)
			return false
		}
		if mo.OK {
			switch op.K {
			case "read":
				if !bytes.Equal(out.Data, mexp.Data) {
					h.violate("read|bytes", "read %d bytes (sum %s), reference has %d (sum %s)", len(out.Data), sum(out.Data), len(mexp.Data), sum(mexp.Data))
					return false
				}
			case "list":
				if strings.Join(out.Names, "\x00") != strings.Join(mexp.Names, "\x00") {
					h.violate("list|names", "listing %q, reference %q", out.Names, mexp.Names)
					return false
				}
			case "stat":
				if out.Info.Kind != mexp.Info.Kind || out.Info.Size != mexp.Info.Size || out.Info.Perm != mexp.Info.Perm {
					h.violate("stat|info", "stat %+v, reference %+v", *out.Info, *mexp.Info)
					return false
				}
			}
		}
	}
	if ds := h.model.CompareAndAdopt(h.tree); len(ds) > 0 {
		cls := strings.SplitN(ds[0], ":", 2)[0]
		okS := "ok"
		if !out.OK {
			okS = "fail"
		}
		h.violate(op.K+"|tree|"+okS+"|"+cls, "tree differs from the reference after the call: %s", shortList(ds, 6))
		return false
	}
	return true
}

// walkVia opens a fresh instance over dir and walks it.
func walkVia(w *Worker, cfg Cfg, srcDir string, withIndex bool, tag string) (Tree, error) {
	d := w.NewDir(tag)
	if err := CloneDir(srcDir, d, withIndex); err != nil {
		return nil, fmt.Errorf("harness: %w", err)
	}
	c := cfg
	rg, err := NewRig(d, c)
	if err != nil {
		return nil, fmt.Errorf("harness: rig: %w", err)
	}
	defer rg.Close()
	defer os.RemoveAll(d) // nothing streams from these short-lived instances once the walk is over
	if err := rg.Init(); err != nil {
		return nil, fmt.Errorf("Initialize: %w", err)
	}
	t, err := WalkTree(rg.FS, true)
	if err != nil {
		return nil, err
	}
	if held := rg.LocksSettled(); len(held) > 0 {
		return nil, fmt.Errorf("locks held after walk: %v", held)
	}
	return t, nil
}

func (h *hist) c01Check(op Op) bool {
	reo, err := walkVia(h.w, h.cfg, h.rig.Dir, true, "reopen")
	if err != nil {
		if strings.HasPrefix(err.Error(), "harness:") {
			h.res.Verdict, h.res.Msg = "inconclusive", err.Error()
			return false
		}
		h.violate("reopen|error", "a fresh instance over the same index fails: %v", err)
		return false
	}
	if ds := DiffTrees(h.tree, reo, "live", "reopened", true); len(ds) > 0 {
		h.violate("reopen|"+strings.SplitN(ds[0], ":", 2)[0], "reopened index shows a different filesystem: %s", shortList(ds, 5))
		return false
	}
	reb, err := walkVia(h.w, h.cfg, h.rig.Dir, false, "rebuild")
	if err != nil {
		if strings.HasPrefix(err.Error(), "harness:") {
			h.res.Verdict, h.res.Msg = "inconclusive", err.Error()
			return false
		}
		h.violate("rebuild|error", "rebuilding the index from the tape alone fails: %v", err)
		return false
	}
	if ds := DiffTrees(h.tree, reb, "live", "rebuilt", true); len(ds) > 0 {
		h.violate("rebuild|"+strings.SplitN(ds[0], ":", 2)[0], "index rebuilt from the tape shows a different filesystem: %s", shortList(ds, 5))
		return false
	}
	h.res.count("prefixes_compared", 1)
	return true
}

func normRowName(n string) string {
	n = strings.TrimSuffix(n, "/")
	if !strings.HasPrefix(n, "/") {
		n = "/" + strings.TrimPrefix(n, "./")
	}
	return path.Clean(n)
}

func liveRowPaths(rows []Row) (map[string]Row, []string) {
	out := map[string]Row{}
	var dup []string
	for _, r := range rows {
		if r.Deleted == 1 {
			continue
		}
		p := normRowName(r.Name)
		if r.Linkname != "" {
			p = normRowName(r.Linkname)
		}
		if p == "/" {
			continue
		}
		if _, ok := out[p]; ok {
			dup = append(dup, p)
		}
		out[p] = r
	}
	return out, dup
}

// c13Check: listing <=> lookup <=> live rows, parent-is-dir, count limits.
func (h *hist) c13Check(op Op) bool {
	rows, err := DumpRows(h.rig.DB)
	if err != nil {
		h.res.Verdict, h.res.Msg = "inconclusive", "row dump: "+err.Error()
		return false
	}
	live, dup := liveRowPaths(rows)
	if len(dup) > 0 {
		h.violate("rows|duplicate", "two live rows for %v", dup)
		return false
	}
	for p, r := range live {
		if _, ok := h.tree[p]; !ok {
			h.violate("rows|unreachable", "live index entry %q (row name %q) is not reachable by listing from the root", p, r.Name)
			return false
		}
		par := path.Dir(p)
		if par != "/" {
			pr, ok := live[par]
			if !ok {
				h.violate("rows|orphan", "live entry %q has no live parent", p)
				return false
			}
			if pr.Typeflag != '5' {
				h.violate("rows|parent-not-dir", "parent of %q is not a directory (typeflag %c)", p, rune(pr.Typeflag))
				return false
			}
		}
	}
	for p := range h.tree {
		if _, ok := live[p]; !ok {
			h.violate("rows|phantom", "listed entry %q has no live index row", p)
			return false
		}
	}
	f := h.rig.FS
	// directory handles that were opened before earlier calls list what is there NOW (a handle on a directory that the call
	// removed or moved is dropped: what it lists then is not specified)
	if h.held == nil {
		h.held = map[string]afero.File{}
	}
	touched := func(p string) bool {
		switch op.K {
		case "remove", "removeall", "rename", "opmove", "opdelete", "latewrite", "lateattr":
			for _, x := range []string{op.A, op.B} {
				if x != "" && (p == x || strings.HasPrefix(p, x+"/")) {
					return true
				}
			}
		}
		e, ok := h.tree[p]
		return !ok || e.Kind != "d"
	}
	var heldPaths []string
	for p := range h.held {
		heldPaths = append(heldPaths, p)
	}
	sort.Strings(heldPaths)
	for _, p := range heldPaths {
		dh := h.held[p]
		if touched(p) {
			_ = dh.Close()
			delete(h.held, p)
			continue
		}
		var want []string
		for q := range h.tree {
			if q != "/" && path.Dir(q) == p {
				want = append(want, path.Base(q))
			}
		}
		sort.Strings(want)
		got, err := dh.Readdirnames(-1)
		if err != nil {
			h.violate("held-handle|error", "Readdirnames(-1) on a handle of %q that was opened before this call: %v", p, err)
			return false
		}
		sort.Strings(got)
		if strings.Join(got, "\x00") != strings.Join(want, "\x00") {
			h.violate("held-handle|stale", "a handle of %q opened before this call lists %q, the directory holds %q", p, shortList(got, 8), shortList(want, 8))
			return false
		}
		h.res.count("listings_through_held_handles", 1)
	}
	for _, d := range dirsOf(h.tree) {
		if len(h.held) >= 3 {
			break
		}
		if _, ok := h.held[d]; ok || (h.step+len(d))%3 != 0 {
			continue
		}
		if dh, err := f.Open(d); err == nil {
			_, _ = dh.Readdirnames(-1)
			h.held[d] = dh
		}
	}
	for _, d := range dirsOf(h.tree) {
		var want []string
		for p := range h.tree {
			if path.Dir(p) == d {
				want = append(want, path.Base(p))
			}
		}
		sort.Strings(want)
		dh, err := f.Open(d)
		if err != nil {
			h.violate("list|open", "Open(%q): %v", d, err)
			return false
		}
		infos, err := dh.Readdir(-1)
		dh.Close()
		if err != nil {
			h.violate("list|readdir", "Readdir(%q,-1): %v", d, err)
			return false
		}
		var got []string
		for _, i := range infos {
			got = append(got, i.Name())
			if strings.Contains(i.Name(), "/") || i.Name() == "" || i.Name() == "." {
				h.violate("list|name", "Readdir(%q) returned the name %q", d, i.Name())
				return false
			}
			cp := path.Join(d, i.Name())
			st, err := f.Stat(cp)
			if err != nil {
				h.violate("list|stat", "listed name %q cannot be stat-ed: %v", cp, err)
				return false
			}
			if st.IsDir() != i.IsDir() || (!i.IsDir() && st.Size() != i.Size()) {
				h.violate("list|stat-mismatch", "Stat(%q) = dir:%v size:%d, listing says dir:%v size:%d", cp, st.IsDir(), st.Size(), i.IsDir(), i.Size())
				return false
			}
			oh, err := f.Open(cp)
			if err != nil {
				h.violate("list|open-child", "listed name %q cannot be opened: %v", cp, err)
				return false
			}
			os2, err := oh.Stat()
			oh.Close()
			if err != nil || os2.IsDir() != i.IsDir() {
				h.violate("list|open-kind", "Open(%q).Stat(): %v dir=%v, listing dir=%v", cp, err, os2 != nil && os2.IsDir(), i.IsDir())
				return false
			}
		}
		sort.Strings(got)
		if strings.Join(got, "\x00") != strings.Join(want, "\x00") {
			h.violate("list|set", "Readdir(%q,-1) = %q, children are %q", d, got, want)
			return false
		}
		dh2, _ := f.Open(d)
		names, err := dh2.Readdirnames(-1)
		dh2.Close()
		sort.Strings(names)
		if err != nil || strings.Join(names, "\x00") != strings.Join(want, "\x00") {
			h.violate("list|names", "Readdirnames(%q,-1) = %q (%v), Readdir names %q", d, names, err, want)
			return false
		}
		wantSet := map[string]bool{}
		for _, x := range want {
			wantSet[x] = true
		}
		for _, n := range []int{0, 1, 2, len(want) - 1, len(want), len(want) + 1, 64, 100, 255, 256, 1000} {
			if n > 2 && n > len(want)+1 && n != len(want)+1 && len(want) < 50 {
				continue // the large limits are for the large directories
			}
			if n < 0 {
				continue
			}
			dh3, _ := f.Open(d)
			li, err := dh3.Readdir(n)
			dh3.Close()
			if err != nil {
				h.violate("list|count-error", "Readdir(%q,%d): %v", d, n, err)
				return false
			}
			if n > 0 && len(li) > n {
				h.violate("list|count-limit", "Readdir(%q,%d) returned %d entries", d, n, len(li))
				return false
			}
			seen := map[string]bool{}
			for _, i := range li {
				if !wantSet[i.Name()] || seen[i.Name()] {
					h.violate("list|count-foreign", "Readdir(%q,%d) returned %q which is not a child or is duplicated", d, n, i.Name())
					return false
				}
				seen[i.Name()] = true
			}
			if n > 0 && len(want) >= n && len(li) < n {
				// fewer than n although n children exist: "at most n" holds; nothing to flag
				h.res.count("count_limited_short", 1)
			}
			if n == 0 && len(li) != len(want) {
				h.violate("list|count-zero", "Readdir(%q,0) returned %d of %d children", d, len(li), len(want))
				return false
			}
			h.res.count("count_limited_listings", 1)
		}
		h.res.count("directories_checked", 1)
	}
	return true
}

// c05 state
type c05State struct {
	before []byte
}

func (h *hist) c05Check(op Op, out Outcome, st *c05State) bool {
	after, err := os.ReadFile(h.rig.Drive)
	if err != nil {
		h.res.Verdict, h.res.Msg = "inconclusive", err.Error()
		return false
	}
	defer func() { st.before = after }()
	if h.rig.Intruded > 0 {
		// another writer appended an end-of-archive marker while the call was in progress: those bytes belong to the tape too
		where := len(st.before)
		st.before = append(append([]byte(nil), st.before...), make([]byte, h.rig.Intruded)...)
		h.rig.Intruded = 0
		h.res.count("calls_with_a_second_writer", 1)
		if len(after) < len(st.before) || !bytes.Equal(after[where:len(st.before)], st.before[where:]) {
			h.violate("overwrote-other-writer", "bytes that another writer appended to the tape (at %d) while the call was in progress were overwritten", where)
			return false
		}
	}
	if !bytes.HasPrefix(after, st.before) {
		h.violate("prefix", "tape is no longer an extension of its previous content (before %d bytes, after %d)", len(st.before), len(after))
		return false
	}
	partial := false
	if op.K == "archive" || op.K == "update" {
		for j, m := range op.Members {
			if m.K == "nofile" {
				partial = j > 0 || op.K == "update" // complete records of the members before the one whose source cannot be opened (a batched update starts with the member the call itself names)
				break
			}
		}
	}
	if partial && !out.OK {
		h.res.count("batched_calls_failing_part_way", 1)
	}
	if !out.OK && len(after) != len(st.before) && !partial {
		h.violate("failed-call-appended", "call failed (%s: %s) but appended %d bytes", out.Phase, out.Err, len(after)-len(st.before))
		return false
	}
	if len(after)%512 != 0 {
		h.violate("alignment", "tape length %d is not a multiple of 512", len(after))
		return false
	}
	if out.OK && len(after) > len(st.before) {
		// a successful call that appended leaves a complete tar archive behind: its last member is followed by the end-of-archive
		// marker (two zero blocks) - a tape that stops right behind a member is what a writer that was interrupted leaves
		if len(after) < 1024 || !allZero(after[len(after)-1024:]) {
			h.violate("no-end-of-archive-marker", "the call appended %d bytes that do not end with the end-of-archive marker (two zero blocks)", len(after)-len(st.before))
			return false
		}
		h.res.count("appending_calls_checked_for_the_end_of_archive_marker", 1)
	}
	recs, _, err := ScanTape(after, h.cfg, &cryptoView{EncIdentity: h.rig.RC.Identity})
	if err != nil {
		h.violate("scan", "an independent tar reader cannot iterate the tape: %v", err)
		return false
	}
	for _, rc := range recs {
		if rc.Outer.Format.String() != "PAX" && rc.Outer.Format.String() != "USTAR" && !strings.Contains(rc.Outer.Format.String(), "PAX") {
			h.violate("format", "record at %d has tar format %s", rc.Off, rc.Outer.Format)
			return false
		}
		if rc.Inner == nil {
			h.violate("undecodable", "record at %d cannot be decoded: %s", rc.Off, rc.DecodeErr)
			return false
		}
	}
	h.res.count("tape_scans", 1)
	h.res.count("records_scanned", int64(len(recs)))
	if h.cfg.Comp == "" && h.cfg.Enc == "" {
		rows, err := DumpRows(h.rig.DB)
		if err != nil {
			h.res.Verdict, h.res.Msg = "inconclusive", "row dump: "+err.Error()
			return false
		}
		byOff := map[int64]TapeRec{}
		for _, rc := range recs {
			byOff[rc.Off] = rc
		}
		live, _ := liveRowPaths(rows)
		for p, e := range h.tree {
			if e.Kind != "f" {
				continue
			}
			r, ok := live[p]
			if !ok {
				continue // C13's business
			}
			off := (r.Record*int64(h.cfg.RS) + r.Block) * 512
			rc, ok := byOff[off]
			if !ok {
				h.violate("content-record", "content record of %q (index position %d/%d) is not a record found by the tar reader", p, r.Record, r.Block)
				return false
			}
			member := after[rc.ContentOff : rc.ContentOff+rc.ContentLen]
			if sum(member) != e.Sum || int64(len(member)) != e.RdLen {
				h.violate("content-bytes", "tar member data of %q at %d is %d bytes (sum %s), the file reads %d bytes (sum %s)", p, off, len(member), sum(member), e.RdLen, e.Sum)
				return false
			}
			h.res.count("members_compared", 1)
		}
	}
	return true
}

// c12Check: set algebra on the trees before/after a successful recursive remove or rename.
func (h *hist) c12Check(op Op, out Outcome, before Tree) bool {
	after := h.tree
	inSub := func(p, root string) bool { return p == root || strings.HasPrefix(p, root+"/") }
	switch op.K {
	case "removeall", "opdelete", "remove":
		if !out.OK {
			if ds := DiffTrees(before, after, "before", "after", true); len(ds) > 0 {
				h.violate(op.K+"|failed-changed", "failed call changed the tree: %s", shortList(ds, 5))
				return false
			}
			return true
		}
		for p, e := range before {
			if inSub(p, op.A) {
				if _, still := after[p]; still {
					h.violate(op.K+"|survivor", "%q is inside the removed subtree but still exists", p)
					return false
				}
				continue
			}
			a, ok := after[p]
			if !ok {
				h.violate(op.K+"|collateral-removed", "%q is outside the removed subtree %q but disappeared", p, op.A)
				return false
			}
			if a != e {
				h.violate(op.K+"|collateral-changed", "%q is outside the removed subtree but changed: %+v -> %+v", p, e, a)
				return false
			}
		}
		for p := range after {
			if _, ok := before[p]; !ok {
				h.violate(op.K+"|appeared", "%q appeared", p)
				return false
			}
		}
		if _, existed := before[op.A]; existed {
			h.res.count("subtree_removals_checked", 1)
		}
	case "rename", "opmove":
		if op.A != op.B && inSub(op.B, op.A) && out.OK {
			h.violate(op.K+"|into-own-subtree", "renaming %q into its own subtree %q was accepted", op.A, op.B)
			return false
		}
		if !out.OK {
			if ds := DiffTrees(before, after, "before", "after", true); len(ds) > 0 {
				h.violate(op.K+"|failed-changed", "failed call changed the tree: %s", shortList(ds, 5))
				return false
			}
			return true
		}
		if op.A == op.B {
			if ds := DiffTrees(before, after, "before", "after", true); len(ds) > 0 {
				h.violate(op.K+"|self-changed", "renaming an entry to itself changed the tree: %s", shortList(ds, 5))
				return false
			}
			return true
		}
		if _, existed := before[op.A]; !existed {
			return true
		}
		for p, e := range before {
			switch {
			case inSub(p, op.A):
				if _, still := after[p]; still {
					h.violate(op.K+"|survivor", "%q is inside the renamed subtree but still exists under its old name", p)
					return false
				}
				np := op.B + strings.TrimPrefix(p, op.A)
				a, ok := after[np]
				if !ok {
					h.violate(op.K+"|lost", "%q should now be %q but is missing", p, np)
					return false
				}
				if a != e {
					h.violate(op.K+"|moved-changed", "%q moved to %q but changed: %+v -> %+v", p, np, e, a)
					return false
				}
			case inSub(p, op.B):
				// replaced target (file over file, dir over empty dir)
			default:
				a, ok := after[p]
				if !ok {
					h.violate(op.K+"|collateral-removed", "%q is outside both subtrees but disappeared", p)
					return false
				}
				if a != e {
					h.violate(op.K+"|collateral-changed", "%q is outside both subtrees but changed: %+v -> %+v", p, e, a)
					return false
				}
			}
		}
		for p := range after {
			if _, ok := before[p]; ok {
				continue
			}
			if !inSub(p, op.B) {
				h.violate(op.K+"|appeared", "%q appeared outside the destination subtree", p)
				return false
			}
			op2 := op.A + strings.TrimPrefix(p, op.B)
			if _, ok := before[op2]; !ok {
				h.violate(op.K+"|appeared", "%q appeared in the destination without a source %q", p, op2)
				return false
			}
		}
		if before[op.A].Kind == "d" {
			h.res.count("subtree_renames_checked", 1)
		} else {
			h.res.count("file_renames_checked", 1)
		}
	default:
		return true
	}
	// the DELETE / move records must name the same set: compare with a rebuild from the tape
	reb, err := walkVia(h.w, h.cfg, h.rig.Dir, false, "c12reb")
	if err != nil {
		if strings.HasPrefix(err.Error(), "harness:") {
			h.res.Verdict, h.res.Msg = "inconclusive", err.Error()
			return false
		}
		h.violate(op.K+"|rebuild-error", "rebuild after the call fails: %v", err)
		return false
	}
	if ds := DiffTrees(after, reb, "live", "rebuilt", false); len(ds) > 0 {
		h.violate(op.K+"|rebuild-differs", "after a rebuild from the tape the effect differs: %s", shortList(ds, 5))
		return false
	}
	return true
}

// ---- runner --------------------------------------------------------------------------------

func genOptsFor(prop string, cfg Cfg, comps []string) GenOpts {
	o := GenOpts{Cfg: cfg, Comps: comps}
	switch prop {
	case "C02":
		o.Late = true
	case "C01":
		o.FarTimes = true
		o.Batched = true // symlinks: only in the witness case of the open finding (they vanish from listings after a rebuild)
	case "C05":
		o.Batched = true
		o.Intruder = true
	case "C04":
		o.Batched = true
	case "C07":
		o.FarTimes = true
		o.Batched, o.BiasMoves = true, true
	case "C12":
		o.BiasMoves = true
		o.Batched = true // Operations.Move / Delete are the CLI's entry points to the same subtree logic
		o.MaxLen = 600
	case "C13":
		o.Counts = true
		o.Batched = true
		o.MaxLen = 600
	}
	return o
}

// rsaRecipientRun is the witness of the open finding rsa-recipient-size-mismatch: with an OpenPGP recipient whose encryption key is
// RSA, the encrypted session key is an integer whose leading zero bytes are dropped, so the two passes of a content write (one to
// learn the encoded size for the tar header, one to write) differ by a byte about once in 128 writes. The loop is long enough to
// meet that with probability 1 - 8e-6; it stops at the first call that fails.
func rsaRecipientRun(c Case, w *Worker) (res Result) {
	cfg := Cfg{Enc: "pgp", Level: "fastest", RS: 20, WC: "memory", RSA: true}
	res.setAdd("configs", cfg.String())
	rig, err := NewRig(w.NewDir("rsa"), cfg)
	if err != nil {
		res.Verdict, res.Msg = "inconclusive", "rig: "+err.Error()
		return
	}
	defer rig.Close()
	if err := rig.Init(); err != nil {
		res.Verdict, res.Msg = "inconclusive", "init: "+err.Error()
		return
	}
	res.NonTrivial = true
	res.Key = "rsa-recipient"
	for i := 0; i < 1500; i++ {
		rig.LocksSettled()
		before, _ := os.Stat(rig.Drive)
		name := fmt.Sprintf("/f%04d", i)
		werr := afero.WriteFile(rig.FS, name, []byte("hello world"), 0o644)
		rig.LocksSettled()
		after, _ := os.Stat(rig.Drive)
		res.count("content_writes_for_an_rsa_recipient", 1)
		if werr != nil {
			if after.Size() != before.Size() || after.Size()%512 != 0 {
				res.violate("c05|witness:rsa-recipient|failed-write-appended", fmt.Sprintf("[%s] write #%d (11 bytes to %s) failed with %q after appending %d bytes; the tape is %d bytes long (%d mod 512)", cfg, i, name, werr, after.Size()-before.Size(), after.Size(), after.Size()%512))
				return
			}
			res.Verdict, res.Msg = "inconclusive", fmt.Sprintf("write #%d failed without appending: %v", i, werr)
			return
		}
		if after.Size()%512 != 0 {
			res.violate("c05|witness:rsa-recipient|not-aligned", fmt.Sprintf("[%s] after write #%d the tape is %d bytes long (%d mod 512)", cfg, i, after.Size(), after.Size()%512))
			return
		}
	}
	res.Sample = map[string]any{"cfg": cfg.String(), "writes": 1500, "note": "no size mismatch between the two passes met in this run"}
	return
}

// twoTreesRun (C07): a tape as `stfs operation archive -f docs` followed by `stfs operation archive -f photos` leaves it - two
// sessions, each a relative top-level tree (directory members without a trailing slash, as filepath.Walk names them), or only file
// members. The replay into the rebuilt index, and into the index as it was before the second session, converges to the rebuild.
func twoTreesRun(c Case, w *Worker) (res Result) {
	cfg := PlainCfg()
	res.setAdd("configs", cfg.String())
	res.NonTrivial, res.Key = true, c.ID
	type member struct {
		name string
		dir  bool
		body string
	}
	sessions := [][]member{
		{{"docs", true, ""}, {"docs/a.txt", false, "alpha\n"}, {"docs/sub", true, ""}, {"docs/sub/b.txt", false, "beta\n"}},
		{{"photos", true, ""}, {"photos/p.jpg", false, "jpeg\n"}},
	}
	if c.Seed%2 == 1 { // file members only
		sessions = [][]member{{{"top/a.txt", false, "hi\n"}, {"top/sub/f", false, "yo\n"}}, {{"other/g", false, "g\n"}}}
	}
	var imgs [][]byte
	var img []byte
	for _, ms := range sessions {
		var buf bytes.Buffer
		tw := tar.NewWriter(&buf)
		for _, m := range ms {
			h := &tar.Header{Typeflag: tar.TypeReg, Name: m.name, Size: int64(len(m.body)), Mode: 0o644, ModTime: time.Unix(1650000000, 0), Format: tar.FormatPAX}
			if m.dir {
				h.Typeflag, h.Mode = tar.TypeDir, 0o755
			}
			_ = tw.WriteHeader(h)
			_, _ = tw.Write([]byte(m.body))
		}
		_ = tw.Close()
		img = append(img, buf.Bytes()...)
		imgs = append(imgs, append([]byte(nil), img...))
	}
	rowsOf := func(dir string, tape []byte, steps ...bool) (string, []Row, error) {
		_ = os.MkdirAll(tapeDir(dir), 0o777)
		var rig *Rig
		for i, overwrite := range steps {
			// every pass is a new process (`stfs recovery index` run again): nothing cached from the previous pass
			if rig != nil {
				rig.Close()
			}
			var err error
			if rig, err = NewRig(dir, cfg); err != nil {
				return "", nil, fmt.Errorf("harness: %w", err)
			}
			defer rig.Close()
			t := tape
			if i == 0 && len(steps) > 1 && !steps[1] && overwrite && len(steps) == 3 {
				t = imgs[0] // first step of the "older index" variant: only the first session is on the tape yet
			}
			if err := os.WriteFile(rig.Drive, t, 0o666); err != nil {
				return "", nil, fmt.Errorf("harness: %w", err)
			}
			if err := runIndex(rig, overwrite); err != nil {
				return "", nil, fmt.Errorf("indexing pass %d (overwrite=%v): %w", i+1, overwrite, err)
			}
			rig.LocksSettled()
		}
		rows, err := DumpRows(rig.DB)
		if err != nil {
			return "", nil, fmt.Errorf("harness: %w", err)
		}
		var live []Row
		for _, r := range rows {
			if r.Deleted != 1 {
				live = append(live, r)
			}
		}
		return RowsDigest(live), live, nil
	}
	want, wantRows, err := rowsOf(w.NewDir("tt0"), img, true)
	if err != nil {
		res.Verdict, res.Msg = "inconclusive", "rebuild from scratch: "+err.Error()
		return
	}
	for vi, steps := range [][]bool{{true, false}, {true, false, false}} {
		what := []string{"a rebuild followed by a replay of the same tape", "an index built when only the first session was on the tape, then two replays of the whole tape"}[vi]
		got, gotRows, err := rowsOf(w.NewDir(fmt.Sprintf("tt%d", vi+1)), img, steps...)
		if err != nil {
			if strings.HasPrefix(err.Error(), "harness:") {
				res.Verdict, res.Msg = "inconclusive", err.Error()
				return
			}
			res.violate("c07|two-trees|replay-error", fmt.Sprintf("[%s] %s: %v", cfg, what, err))
			return
		}
		if got != want {
			var names, wnames []string
			for _, r := range gotRows {
				names = append(names, r.Name)
			}
			for _, r := range wantRows {
				wnames = append(wnames, r.Name)
			}
			res.violate("c07|two-trees|differs", fmt.Sprintf("[%s] %s shows the live rows %q, a rebuild from scratch %q", cfg, what, names, wnames))
			return
		}
		res.count("two_tree_replays_compared", 1)
	}
	return
}

func seqRun(prop, tier string, c Case, w *Worker) (res Result) {
	if c.Kind == "giant" {
		var hp handP
		_ = json.Unmarshal(c.P, &hp)
		res = giantRun(hp, c, w)
		if res.Verdict == "violation" {
			res.Sig = strings.ToLower(prop) + "|" + strings.TrimPrefix(res.Sig, "c14|")
		}
		return
	}
	if c.Kind == "witness:rsa-recipient" {
		return rsaRecipientRun(c, w)
	}
	if c.Kind == "two-trees" {
		return twoTreesRun(c, w)
	}
	var p seqP
	_ = json.Unmarshal(c.P, &p)
	cfg := p.Cfg
	res.setAdd("configs", cfg.String())
	dir := w.NewDir("h")
	rig, err := NewRig(dir, cfg)
	if err != nil {
		res.Verdict, res.Msg = "inconclusive", "rig: "+err.Error()
		return
	}
	defer func() { rig.Close() }()
	h := &hist{prop: prop, w: w, rig: rig, cfg: rig.Cfg, model: NewModel(), inSync: true, res: &res, kind: "random"}
	if p.Witness != "" {
		h.kind = "witness:" + p.Witness
	}
	res.Detail = map[string]any{"cfg": cfg, "ops": &h.ops, "outcomes": &h.outs}
	h.ops = append(h.ops, Op{K: "initialize", A: "/"})
	if cfg.Overwrite {
		// an old archive is on the drive; the explicit initialise (first writer of an overwriting manager) replaces it - the stated
		// exception - and from then on the tape is append-only like any other
		old := genContent(5*512, "text", c.Seed)
		_ = os.WriteFile(rig.Drive, old, 0o666)
		if err := rig.WOps.Initialize("/", os.ModePerm, rig.Cfg.Level); err != nil {
			h.violate("init", "Operations.Initialize with an overwriting drive manager failed: %v", err)
			return
		}
		rig.LocksSettled()
	}
	if p.Root != "" {
		var buf bytes.Buffer
		tw := tar.NewWriter(&buf)
		format := map[string]tar.Format{"ustar": tar.FormatUSTAR, "pax": tar.FormatPAX, "gnu": tar.FormatGNU}[p.RootFmt]
		if err := tw.WriteHeader(&tar.Header{Typeflag: tar.TypeDir, Name: p.Root, Mode: 0o755, ModTime: time.Unix(1650000000, 0), Format: format}); err != nil {
			res.Verdict, res.Msg = "inconclusive", "writing the foreign root: "+err.Error()
			return
		}
		_ = tw.Close()
		if err := os.WriteFile(rig.Drive, buf.Bytes(), 0o666); err != nil {
			res.Verdict, res.Msg = "inconclusive", err.Error()
			return
		}
		if p.Witness == "" {
			h.kind = "rooted"
		}
		res.setAdd("roots", p.RootFmt+" "+p.Root)
	}
	if err := rig.Init(); err != nil {
		h.violate("init", "Initialize on an empty drive failed: %v", err)
		return
	}
	h.tree, err = WalkTree(rig.FS, true)
	if err != nil {
		h.violate("walk", "walk of the fresh filesystem failed: %v", err)
		return
	}
	h.ops = h.ops[:0]
	gopts := genOptsFor(prop, rig.Cfg, p.Comps)
	gopts.Exotic = p.Exotic
	if p.Twins && gopts.Batched {
		gopts.Twins = true
		h.kind = "twins"
	}
	if p.Exotic {
		h.kind = "exotic"
	}
	gen := NewGen(newRand(c.Seed), gopts)
	c05 := &c05State{}
	if prop == "C05" {
		c05.before, _ = os.ReadFile(rig.Drive)
	}
	var c04 *c04State
	if prop == "C04" {
		c04 = &c04State{}
	}
	if prop == "C04" && rig.Cfg.RS >= 100 && len(p.Ops) == 0 {
		// with large records the interesting arithmetic happens near the end of a record: fill the first record almost up, so
		// that the history's records get high block numbers and then cross into the next record
		margin := 6000 + int(c.Seed%5)*6000 // room for about 3..15 more records in the first record
		fill := Op{K: "create", A: "/filler", Len: rig.Cfg.RS*512 - margin, Dist: "random", DSeed: 1} // incompressible: the tape has to grow under every codec
		p.Steps += 12
		h.ops = append(h.ops, fill)
		h.outs = append(h.outs, execOp(rig, fill))
		applyModel(h.model, fill)
		rig.LocksSettled()
		if h.tree, err = WalkTree(rig.FS, true); err != nil {
			h.violate("walk", "walk after the filler file: %v", err)
			return
		}
	}
	succMut, kinds := 0, map[string]bool{}
	nsteps := p.Steps
	if len(p.Ops) > 0 {
		nsteps = len(p.Ops)
	}
	for h.step = 0; h.step < nsteps; h.step++ {
		var op Op
		if len(p.Ops) > 0 {
			op = p.Ops[h.step]
			op.A, op.B = strings.ReplaceAll(op.A, "{E9}", "\xe9"), strings.ReplaceAll(op.B, "{E9}", "\xe9")
		} else {
			op = gen.Next(h.tree)
		}
		if p.Reopen > 0 && h.step > 0 && h.step%p.Reopen == 0 && !cfg.Overwrite {
			// process restart: a new instance over the same drive and index file takes over
			rig.LocksSettled()
			for k, dh := range h.held {
				_ = dh.Close()
				delete(h.held, k)
			}
			rig.Close()
			nr, err := NewRig(dir, cfg)
			if err != nil {
				res.Verdict, res.Msg = "inconclusive", "rig: "+err.Error()
				return
			}
			nr.Cfg = rig.Cfg
			rig = nr
			h.rig = nr
			if err := rig.Init(); err != nil {
				h.ops = append(h.ops, Op{K: "reopen"})
				h.violate("reopen", "a new instance over the same tape and index (restart before call %d) cannot be initialised: %v", h.step, err)
				return
			}
			res.count("instance_restarts", 1)
		}
		// C05: now and then the operating system refuses the drive for exactly one call (its directory is gone, or the path is a
		// directory); the call may fail, and nothing that was on the tape may change because of it - not in this call and not in
		// the next one that succeeds (an overwriting manager must not take the failed open as a reason to truncate again)
		var unbreak func() error
		if prop == "C05" && len(p.Ops) == 0 && h.step > 2 && h.step%5 == 3 && c.Seed%3 != 1 {
			op.Brk = []string{"missing", "isdir"}[(int(c.Seed>>8)+h.step/5)%2]
		}
		if op.Brk != "" {
			rig.LocksSettled()
			if unbreak, err = rig.BreakDriveMode(op.Brk); err != nil {
				res.Verdict, res.Msg = "inconclusive", "breaking the drive: "+err.Error()
				return
			}
			res.count("calls_with_the_drive_refused_by_the_os", 1)
		}
		h.ops = append(h.ops, op)
		before := h.tree
		out := execOp(rig, op)
		if unbreak != nil {
			rig.LocksSettled()
			if err := unbreak(); err != nil {
				res.Verdict, res.Msg = "inconclusive", "restoring the drive: "+err.Error()
				return
			}
			if !out.OK {
				res.count("calls_failing_with_the_drive_refused", 1)
			}
		}
		h.outs = append(h.outs, out)
		res.count("calls", 1)
		res.count("calls_"+op.K, 1)
		if op.Spell != 0 || op.SpellB != 0 {
			res.count("calls_with_unusual_spelling", 1)
		}
		if op.Far != 0 {
			res.count("calls_chtimes_beyond_the_reach_of_int64_nanoseconds", 1)
		}
		if p.Exotic {
			res.count("calls_in_exotic_histories", 1)
		}
		if out.OK {
			res.count("calls_ok", 1)
		} else {
			res.count("calls_failed", 1)
		}
		if held := rig.LocksSettled(); len(held) > 0 {
			// C10's subject; here it only means the history cannot continue (the next call would hang)
			res.count("histories_cut_by_lock_leak", 1)
			break
		}
		h.tree, err = WalkTree(rig.FS, true)
		if err != nil {
			if prop == "C02" || prop == "C13" || prop == "C01" {
				h.violate(op.K+"|walk", "filesystem cannot be walked after the call: %v", err)
			} else {
				res.count("histories_cut_by_walk_error", 1)
			}
			break
		}
		mo, mexp := MOut{}, Outcome{}
		if h.inSync && op.Brk != "" && !out.OK {
			// refused by the operating system: nothing happened, the reference stays where it is
			mo.Amb = true
		} else if h.inSync {
			mo, mexp = applyModel(h.model, op)
			if !mo.Amb && mo.OK != out.OK {
				if prop != "C02" {
					h.inSync = false
					res.count("histories_left_reference", 1)
				}
			} else if mo.Amb && out.OK && op.K == "rename" && op.A != op.B && prop != "C02" {
				if n, ok2 := h.model.N[op.B]; ok2 && n.Dir {
					h.model.RenameReplaceEmptyDir(op.A, op.B)
				}
			}
		}
		if out.OK && op.K != "stat" && op.K != "list" && op.K != "read" {
			succMut++
			kinds[op.K] = true
		}
		cont := true
		switch prop {
		case "C02":
			cont = h.c02Check(op, out, mo, mexp)
		case "C01":
			cont = h.c01Check(op)
		case "C05":
			cont = h.c05Check(op, out, c05)
		case "C13":
			cont = h.c13Check(op)
		case "C12":
			cont = h.c12Check(op, out, before)
		case "C04":
			cont = h.c04Check(op, out, c04)
		case "C07":
			// decided at the end of the history
		}
		if !cont || res.Verdict != "" {
			break
		}
	}
	if prop == "C07" && res.Verdict == "" {
		h.c07Check()
	}
	res.count("histories", 1)
	res.count("successful_mutations", int64(succMut))
	nrec := int64(0)
	if img, err := os.ReadFile(rig.Drive); err == nil {
		if recs, _, err := ScanTape(img, rig.Cfg, &cryptoView{EncIdentity: rig.RC.Identity}); err == nil {
			nrec = int64(len(recs))
		}
	}
	res.count("tape_records", nrec)
	if prop == "C05" && res.Verdict == "" && nrec > 0 {
		// a second, unrelated implementation: GNU tar has to list the whole tape (-i: the end-of-archive markers between appended
		// records are zero blocks) and find as many members as there are records
		if tarBin, err := exec.LookPath("tar"); err == nil {
			cmd := exec.Command(tarBin, "-i", "-tf", rig.Drive)
			var eb bytes.Buffer
			cmd.Stderr = &eb
			outb, terr := cmd.Output()
			lines := strings.Count(string(outb), "\n") // names are printed escaped, one per line
			outb = append(outb, eb.Bytes()...)
			if terr != nil || int64(lines) != nrec {
				h.ops = append(h.ops, Op{K: "gnu-tar-list"})
				h.violate("gnu-tar", "GNU tar lists %d members of the tape (err=%v), an independent scan finds %d records: %s", lines, terr, nrec, clip(string(outb), 300))
			} else {
				res.count("tapes_listed_by_gnu_tar", 1)
			}
		}
	}
	res.NonTrivial = succMut >= 3 && nrec >= 4
	res.Key = sum([]byte(strings.Join(opNames(h.ops), "\n") + cfg.String()))
	if res.Verdict == "" && os.Getenv("VERIF_KEEP_DETAIL") == "" {
		res.Detail = nil
	}
	res.Sample = map[string]any{"cfg": cfg.String(), "ops": opNames(h.ops), "tape_records": nrec}
	return
}

func init() {
	register(&Engine{Name: "seqhist", Props: []string{"C01", "C02", "C04", "C05", "C07", "C12", "C13"}, Cases: seqCases, Run: seqRun})
	histRule := "one generated call history per case on a fresh instance (name universe with SQL wildcards, dots, spaces, non-ASCII, >100-byte and codec-looking components; reuse of names forced; contents from the size classes around block and record boundaries); the monitor runs after every call; non-trivial = at least 3 successful mutating calls and at least 4 records on the tape; distinct = distinct (configuration, call list); one batched Archive call in 8 (and one Update call in 8, which then is a batch of 2-3 files) has a member whose source cannot be opened; one Update call in 6 is a replacing update of a directory (a header-only record) when its turn comes: the call fails part-way, what it completely wrote before must be on the tape (block aligned, iterable) AND in the index, nothing of the rest"
	propMeta["C02"] = PropMeta{Level: "exploration", Rule: histRule + "; C02 monitor: outcome, returned data and full tree (kinds, sizes, contents, permission bits, owners, timestamps) against a POSIX reference model that is itself validated against afero.OsFs; plus the composite call 'latewrite' (a handle is opened and left idle, another handle rewrites the file and closes, the idle handle then writes and closes: shared-file semantics of the reference) and the composite call 'lateattr' (a handle is opened, the entry's mode / owner is changed through the filesystem, the handle then writes and closes: the flush must keep the new attributes), one sparse file of more than 2^31 bytes, and in a fifth of the histories every 1st-4th call is made by a NEW instance over the same tape and index (restart)",
		Assumptions: []string{"reference-ambiguous shapes (rename of a directory onto an empty directory or onto itself, RemoveAll through a file) accept either outcome", "op shapes of the open findings listed in KNOWN_FINDINGS.txt are generated only by their dedicated witness cases", "symlinks and operations on the root itself are outside the generator"}}
	propMeta["C01"] = PropMeta{Level: "exploration", Rule: histRule + "; C01 monitor: tree+content through (a) a fresh instance over a copy of the index and (b) a fresh instance that rebuilds the index from a copy of the tape alone, both equal to the live instance after every call; histories include symlinks and batched Archive/Update/Delete/Move; exotic histories also set times with years 2..9999 and in zones whose offset has seconds, entries carry the full time where int64 nanoseconds cannot",
		Assumptions: []string{"'fresh process' is approximated by a fresh object graph in the same process over copies of the files; File.Name() is not part of the compared tree"}}
	propMeta["C05"] = PropMeta{Level: "exploration", Rule: histRule + "; C05 monitor: byte-prefix test of the drive file around every call, failing calls append nothing (except the complete records of a batch that fails part-way), length multiple of 512, every successful appending call ends with the end-of-archive marker (two zero blocks), independent archive/tar scan restarting after each trailer, member bytes == file content for uncompressed+unencrypted configurations; at the end of each history GNU tar (`tar -i -tf`) must list the tape without error and find as many members as the scan found records; in two thirds of the histories every fifth call runs while the operating system refuses the drive (its directory is missing, or the path is a directory), overwriting managers included; witness of the open finding rsa-recipient-size-mismatch: 1500 small writes for an OpenPGP recipient with an RSA key",
		Assumptions: []string{"explicit overwrite/initialise calls are not part of the histories (they are the stated exception)"}}
	propMeta["C13"] = PropMeta{Level: "exploration", Rule: histRule + "; C13 monitor: live index rows == entries reachable by listing, parent is a live directory, Readdir(-1) == children exactly once, Readdirnames == Readdir names, Readdir(n) for n in {0,1,2,|c|-1,|c|,|c|+1} within bounds and within the children, every listed name stat-able and openable with matching kind and size; up to three directory handles are kept open across calls and have to list what is there now; histories include Operations.Archive / Update / Delete / Move",
		Assumptions: []string{"symlinks are outside this generator"}}
	propMeta["C12"] = PropMeta{Level: "exploration", Rule: histRule + " over the alphabet {a, ab, a_, a%, 'a b', a.b, ä, aä, %, _}; C12 monitor: set algebra on the observed tree before/after every Remove/RemoveAll/Rename/Operations.Delete/Move (nothing outside the subtree changed, nothing inside survived, moved subtree identical, into-own-subtree refused), and the same effect after a rebuild from the tape; histories include Operations.Move / Delete (the CLI's entry points), a third of the Operations.Move destinations in exotic histories are unclean (trailing slash, //, /./, /x/../), rename source and destination are spelled independently, a third of the own-subtree destinations go below a component that starts or ends with dots; the alphabet also has names starting with characters outside the BMP and at its upper end",
		Assumptions: []string{}}
	propMeta["C04"] = PropMeta{Level: "exploration", Rule: histRule + " with batched Archive (1..6 members); C04 monitor: every live row's (record, block) is the offset of a record found by an independent tar scan and is the record that last carried the entry's content according to an independent record interpreter, block < record size, last-known >= content position, Fetch at the position == reference content, last-indexed position == final record, recovery.Query positions == scan positions",
		Assumptions: []string{"expected content comes from the reference model while the history agrees with it, otherwise from the raw member bytes (plain configurations)"}}
	propMeta["C07"] = PropMeta{Level: "exploration", Rule: histRule + " biased to moves and delete-recreate; C07 monitor (end of history): for j in all/sampled record prefixes: index of the first j records, then replay of the whole tape without wiping: no error, tree == from-scratch rebuild, a further pass changes no row; j=R uses a copy of the live index; every second prefix index is built with another record size (2x, or half + 1) than the replay uses; two fixed tapes with several relative top-level trees resp. file members only, rebuilt and then replayed once and twice by fresh instances",
		Assumptions: []string{}}
}

// shapeCases: fixed histories for shapes the random generator does not reach: a directory with hundreds of children, a path that
// is dozens of levels deep and several hundred bytes long; each followed by renames and removals of the whole thing.
func shapeCases(prop, tier string, cfgs []Cfg) []Case {
	var out []Case
	sizes := []int{70, 300}
	if tier == "thorough" {
		sizes = []int{70, 130, 257, 300, 1001}
	}
	for i, n := range sizes {
		var ms []Op
		for k := 0; k < n; k++ {
			m := Op{K: "file", A: fmt.Sprintf("/w/f%04d", k), Perm: 0o644, Len: k % 40, Dist: "text", DSeed: uint64(k) + 1}
			if k%17 == 3 {
				m = Op{K: "dir", A: fmt.Sprintf("/w/d%04d", k), Perm: 0o755}
			}
			ms = append(ms, m)
		}
		ops := []Op{{K: "mkdir", A: "/w", Perm: 0o755}, {K: "mkdir", A: "/wx", Perm: 0o755}, {K: "archive", Members: ms, DSeed: 5}, {K: "list", A: "/w", N: -1},
			{K: "create", A: "/w/d0003/inner", Len: 10, Dist: "text", DSeed: 9}, {K: "rename", A: "/w", B: "/w2"}, {K: "list", A: "/w2", N: 100}, {K: "remove", A: "/w2/f0001"},
			{K: "rename", A: "/w2", B: "/wx/moved"}, {K: "removeall", A: "/wx/moved"}, {K: "list", A: "/", N: -1}}
		pb, _ := json.Marshal(seqP{Cfg: cfgs[i%len(cfgs)], Ops: ops})
		out = append(out, Case{ID: fmt.Sprintf("%s-wide-%d", strings.ToLower(prop), n), Seed: uint64(n), Kind: "random", P: pb})
	}
	depths := []int{12, 40}
	for i, d := range depths {
		p := ""
		for k := 0; k < d; k++ {
			p += fmt.Sprintf("/level-%02d-abcdefghij", k)
		}
		top := "/level-00-abcdefghij"
		ops := []Op{{K: "mkdirall", A: p, Perm: 0o755}, {K: "create", A: p + "/leaf", Len: 600, Dist: "text", DSeed: 3}, {K: "stat", A: p + "/leaf"}, {K: "list", A: p, N: -1},
			{K: "chmod", A: p, Perm: 0o700}, {K: "rename", A: top, B: "/renamed-top"}, {K: "read", A: "/renamed-top" + strings.TrimPrefix(p, top) + "/leaf"},
			{K: "mkdir", A: "/other", Perm: 0o755}, {K: "rename", A: "/renamed-top", B: "/other/deep"}, {K: "removeall", A: "/other/deep" + strings.TrimPrefix(p, top)}, {K: "removeall", A: "/other"}}
		pb, _ := json.Marshal(seqP{Cfg: cfgs[(i+1)%len(cfgs)], Ops: ops})
		out = append(out, Case{ID: fmt.Sprintf("%s-deep-%d", strings.ToLower(prop), d), Seed: uint64(d), Kind: "random", P: pb})
	}
	return out
}

func allZero(b []byte) bool {
	for _, x := range b {
		if x != 0 {
			return false
		}
	}
	return true
}
