package main

import (
	"math/rand"
	"os"
	"path"
	"sort"
	"strings"
	"unicode/utf8"
)

// Name universe of C02/C12/C13: SQL wildcard characters, dots, spaces, non-ASCII, prefix-related siblings, codec-looking
// suffixes, one >100-byte component.
var longComp = strings.Repeat("L", 60) + "-" + strings.Repeat("n", 59)
var nameUniverse = []string{"a", "ab", "a_", "a%", "a.b", "a b", "ä", "aä", ".h", "%", "_", "x.gz", "y.zst", "z.age", "w.pgp", longComp, "A", "AB", "Ä"} // incl. names that differ only in case

// exotic components ("cafe\u0301", "A\u030a": decomposed accents as macOS clients send them - names are bytes, not normalised): characters that are special to tar, SQL, shells, globbing, Go path handling or terminals
var exoticNames = []string{"...", "..a", "a\nb", "a\\b", "it's", "a*", "a?", "[a]", "a:b", "trail ", "dot.", "\U0001F600", "a\tb", "\"q\"", "-rf", "~", "a;b", "$x", "a=b", "#", "caf\xe9-latin1", "cafe\u0301", "A\u030a", strings.Repeat("z", 300), strings.Repeat("w", 70000)}

func hasCodecSuffix(n string) bool {
	for _, s := range []string{".gz", ".lz4", ".zst", ".br", ".bz2", ".age", ".pgp"} {
		if strings.HasSuffix(n, s) {
			return true
		}
	}
	return false
}

type GenOpts struct {
	Cfg       Cfg
	Symlinks  bool // C01 only
	Batched   bool // Operations.Archive/Update/Delete/Move (C01, C04, C05, C07)
	FSOnly    bool
	MaxLen    int // content sizes are drawn from the size classes up to this
	Comps     []string
	BiasMoves bool
	Counts    bool // readdir with count limits (C13)
	NoAttrs   bool
	Intruder  bool // C05: during some batched archive calls another writer appends an end-of-archive marker to the tape
	Late      bool // C02: a handle left idle while another handle rewrites the file, then written and closed
	Twins     bool // batched members all carry ONE size, mode and modification time: names re-used after a move or delete get records whose metadata is identical to the earlier entry's, only content and position differ
	FarTimes  bool // chtimes with years such as 1000, 1648, 2400, 9999 (C01, C07: compared between instances, not with the reference model)
	Exotic    bool // unusual names, path spellings, owners, timestamps, permission values, deeper trees
}

type Gen struct {
	r    *rand.Rand
	o    GenOpts
	used map[string]bool
	seq  uint64
}

func NewGen(r *rand.Rand, o GenOpts) *Gen {
	if len(o.Comps) == 0 {
		// a small per-history subset keeps collisions (reuse of names) frequent
		uni := nameUniverse
		if o.Exotic {
			uni = append([]string{}, nameUniverse...)
			for _, n := range exoticNames {
				// with encryption or signatures the real header travels as JSON, which cannot carry bytes that are not UTF-8
				// (open finding non-utf8-name-embedded-header, reported by its witness)
				if !utf8.ValidString(n) && (o.Cfg.Enc != "" || o.Cfg.Sig != "") {
					continue
				}
				uni = append(uni, n)
			}
		}
		idx := r.Perm(len(uni))
		n := 4 + r.Intn(3)
		for _, i := range idx[:n] {
			o.Comps = append(o.Comps, uni[i])
		}
	}
	if o.MaxLen == 0 {
		o.MaxLen = 3*o.Cfg.RS*512 + 7
		if o.MaxLen > 200000 {
			o.MaxLen = 200000 // large record sizes are about position arithmetic, not about megabytes of content
		}
	}
	return &Gen{r: r, o: o, used: map[string]bool{}}
}

func (g *Gen) maxDepth() int {
	if g.o.Exotic {
		return 8
	}
	return 4
}

func (g *Gen) plainCodec() bool { return g.o.Cfg.Comp == "" && g.o.Cfg.Enc == "" }

func dirsOf(t Tree) []string {
	out := []string{"/"}
	for k, e := range t {
		if e.Kind == "d" {
			out = append(out, k)
		}
	}
	sort.Strings(out)
	return out
}

func filesOf(t Tree) []string {
	var out []string
	for k, e := range t {
		if e.Kind == "f" {
			out = append(out, k)
		}
	}
	sort.Strings(out)
	return out
}

func allOf(t Tree) []string {
	var out []string
	for k, e := range t {
		if e.Kind != "l" {
			out = append(out, k)
		}
	}
	sort.Strings(out)
	return out
}

func depth(p string) int { return strings.Count(strings.TrimSuffix(p, "/"), "/") }

func (g *Gen) pick(l []string) string { return l[g.r.Intn(len(l))] }

// newPath returns a path for a new entry: an existing directory plus a component; forFile avoids codec-looking names
// for regular files when a codec is active (open finding F12: the indexer strips such suffixes from every regular name).
func (g *Gen) newPath(t Tree, forFile bool) string {
	dirs := dirsOf(t)
	var cands []string
	for _, d := range dirs {
		if depth(d) < g.maxDepth() || d == "/" {
			cands = append(cands, d)
		}
	}
	d := g.pick(cands)
	for tries := 0; tries < 20; tries++ {
		c := g.pick(g.o.Comps)
		if forFile && hasCodecSuffix(c) && !g.plainCodec() {
			continue
		}
		p := path.Join(d, c)
		// prefer names used before (delete -> recreate, rename onto previously used names) half of the time
		if g.r.Intn(2) == 0 && len(g.used) > 0 {
			var us []string
			for u := range g.used {
				if _, exists := t[u]; !exists {
					if pe, pok := t[path.Dir(u)]; (pok && pe.Kind == "d") || path.Dir(u) == "/" {
						if !(forFile && hasCodecSuffix(u) && !g.plainCodec()) {
							us = append(us, u)
						}
					}
				}
			}
			if len(us) > 0 {
				sort.Strings(us)
				p = g.pick(us)
			}
		}
		return p
	}
	return path.Join(d, "a")
}

func (g *Gen) size() int {
	cl := sizeClasses(g.o.Cfg.RS)
	var ok []int
	for _, c := range cl {
		if c <= g.o.MaxLen {
			ok = append(ok, c)
		}
	}
	if g.r.Intn(3) == 0 {
		return g.r.Intn(700)
	}
	return ok[g.r.Intn(len(ok))]
}

func (g *Gen) data(o *Op) {
	g.seq++
	o.Len = g.size()
	o.Dist = dists[g.r.Intn(3)]
	if o.Len >= 1024 && g.r.Intn(5) == 0 {
		o.Dist = "tar"
	}
	o.DSeed = g.r.Uint64()
}

var perms = []uint32{0o777, 0o755, 0o700, 0o644, 0o600, 0o666, 0o750, 0o444}

// Next generates the next op from the currently observed tree.
func (g *Gen) Next(t Tree) Op {
	op := g.next(t)
	if g.o.Exotic {
		g.exoticise(&op)
	}
	for _, p := range []string{op.A, op.B} {
		if p != "" && p != "/" {
			g.used[p] = true
		}
	}
	for _, m := range op.Members {
		g.used[m.A] = true
	}
	return op
}

var exoticIDs = []int{0, 1, 65535, 65536, 2097151, 2097152, 1<<31 - 1, -1, -1} // -1: "leave this id alone" (chown(2))
var exoticTimes = []int64{1_600_000_000_123_456_789, 1_000_000_001, -1_000_000_000_000_000_000, 999_999_999, 7_000_000_000_000_000_000, 1_600_000_000_000_000_001, 4_102_444_800_000_000_000}
var exoticPerms = []uint32{0, 0o001, 0o111, 0o400, 0o007}

// exoticise replaces some generated values by unusual ones and picks an unusual (but equivalent) spelling for the paths.
func (g *Gen) exoticise(op *Op) {
	r := g.r
	switch op.K {
	case "chown":
		if r.Intn(2) == 0 {
			op.Uid, op.Gid = exoticIDs[r.Intn(len(exoticIDs))], exoticIDs[r.Intn(len(exoticIDs))]
		}
	case "chtimes":
		if r.Intn(2) == 0 {
			op.At, op.Mt = exoticTimes[r.Intn(len(exoticTimes))], exoticTimes[r.Intn(len(exoticTimes))]
		}
		if r.Intn(3) == 0 {
			op.Zone = []int{7200, -18000, 19800, 45 * 60, 1172, -17762}[r.Intn(6)] // the last two: local mean times (offsets with seconds, what time.LoadLocation yields for dates before standard time)
		}
		if g.o.FarTimes && r.Intn(3) == 0 {
			op.Far = 1 + r.Intn(4)
		}
	case "chmod", "mkdir", "mkdirall":
		if r.Intn(3) == 0 {
			op.Perm = exoticPerms[r.Intn(len(exoticPerms))]
		}
	}
	switch op.K {
	case "mkdir", "mkdirall", "create", "write", "read", "remove", "removeall", "rename", "chmod", "chown", "chtimes", "stat", "list", "opmove":
		if r.Intn(4) == 0 && op.K != "opmove" {
			op.Spell = 1 + r.Intn(6)
		}
		if op.K == "opmove" && r.Intn(3) == 0 {
			// Operations.Move (the CLI's `operation move`) with a destination that is not clean: trailing slash, "//", "/./", "/x/../"
			op.SpellB = []int{3, 4, 5, 6}[r.Intn(4)]
		}
		if op.K == "rename" && r.Intn(4) == 0 {
			// source and destination spelled differently (relative source, absolute destination, ...)
			op.SpellB = r.Intn(8) - 1
		}
	}
}

// spell returns an equivalent spelling of a clean absolute path.
func spell(p string, how int) string {
	if how == 0 || p == "" {
		return p
	}
	rel := strings.TrimPrefix(p, "/")
	switch how {
	case 1:
		if rel == "" {
			return "."
		}
		return rel
	case 2:
		return "./" + rel
	case 3:
		if i := strings.Index(rel, "/"); i > 0 {
			return "/" + rel[:i] + "//" + rel[i+1:]
		}
		return "//" + rel
	case 4:
		return "/./" + rel
	case 5:
		if rel == "" {
			return "/"
		}
		return p + "/"
	case 6:
		return "/zz/../" + rel
	case 7:
		return "../" + rel // not generated: outside the spellings the properties name, and rejected by the base-path layer of the documented composition
	}
	return p
}

func (g *Gen) existing(t Tree) (string, bool) {
	a := allOf(t)
	if len(a) == 0 {
		return "", false
	}
	return g.pick(a), true
}

func (g *Gen) missingPath(t Tree) string {
	for i := 0; i < 10; i++ {
		p := path.Join(g.pick(dirsOf(t)), g.pick(g.o.Comps))
		if _, ok := t[p]; !ok {
			return p
		}
	}
	return "/no/such/entry"
}

func (g *Gen) next(t Tree) Op {
	r := g.r
	files := filesOf(t)
	type w struct {
		k string
		n int
	}
	ws := []w{{"mkdir", 12}, {"mkdirall", 6}, {"writenew", 14}, {"writeold", 10}, {"read", 5}, {"remove", 8}, {"removeall", 6}, {"rename", 13}, {"stat", 4}, {"list", 5}}
	if !g.o.NoAttrs {
		ws = append(ws, w{"chmod", 5}, w{"chown", 4}, w{"chtimes", 4})
	}
	if g.o.BiasMoves {
		ws = append(ws, w{"rename", 14}, w{"remove", 6}, w{"writenew", 6})
	}
	if g.o.Symlinks {
		ws = append(ws, w{"symlink", 4})
	}
	if g.o.Batched {
		ws = append(ws, w{"archive", 8}, w{"update", 4}, w{"opdelete", 3}, w{"opmove", 4})
		if g.o.Twins {
			ws = append(ws, w{"archive", 16}, w{"opmove", 14}, w{"opdelete", 5}, w{"update", 4})
		}
	}
	tot := 0
	for _, x := range ws {
		tot += x.n
	}
	pickK := func() string {
		v := r.Intn(tot)
		for _, x := range ws {
			if v < x.n {
				return x.k
			}
			v -= x.n
		}
		return "stat"
	}
	for tries := 0; tries < 50; tries++ {
		switch k := pickK(); k {
		case "mkdir":
			p := g.newPath(t, false)
			if r.Intn(8) == 0 { // negative: existing target, missing parent, file as parent
				switch r.Intn(3) {
				case 0:
					if e, ok := g.existing(t); ok {
						p = e
					}
				case 1:
					p = path.Join(g.missingPath(t), g.pick(g.o.Comps))
				case 2:
					if len(files) > 0 {
						p = path.Join(g.pick(files), g.pick(g.o.Comps))
					}
				}
			}
			return Op{K: "mkdir", A: p, Perm: perms[r.Intn(len(perms))]}
		case "mkdirall":
			base := g.pick(dirsOf(t))
			if r.Intn(8) == 0 && len(files) > 0 {
				base = g.pick(files)
			}
			p := base
			for i := 0; i < 1+r.Intn(3) && depth(p) < 5; i++ {
				p = path.Join(p, g.pick(g.o.Comps))
			}
			return Op{K: "mkdirall", A: p, Perm: perms[r.Intn(len(perms))]}
		case "writenew":
			p := g.newPath(t, true)
			if r.Intn(10) == 0 {
				switch r.Intn(2) {
				case 0:
					p = path.Join(g.missingPath(t), "f")
				case 1:
					if len(files) > 0 {
						p = path.Join(g.pick(files), g.pick(g.o.Comps))
					}
				}
			}
			if _, exists := t[p]; exists {
				continue
			}
			if r.Intn(3) == 0 {
				op := Op{K: "create", A: p}
				g.data(&op)
				op.NoWrite = r.Intn(6) == 0
				return op
			}
			acc := []int{os.O_WRONLY, os.O_RDWR, os.O_RDONLY}[r.Intn(3)]
			fl := acc
			if r.Intn(8) != 0 {
				fl |= os.O_CREATE
			}
			if r.Intn(3) == 0 && acc != os.O_RDONLY {
				fl |= os.O_TRUNC
			}
			if r.Intn(4) == 0 && acc != os.O_RDONLY {
				fl |= os.O_APPEND
			}
			if r.Intn(6) == 0 {
				fl |= os.O_SYNC // synchronous I/O changes nothing a caller can observe
			}
			if fl&os.O_CREATE != 0 && r.Intn(5) == 0 {
				fl |= os.O_EXCL
			}
			op := Op{K: "write", A: p, Flag: fl, Perm: perms[r.Intn(len(perms))]}
			g.data(&op)
			op.NoWrite = r.Intn(6) == 0
			return op
		case "writeold":
			e, ok := g.existing(t)
			if !ok {
				continue
			}
			ent := t[e]
			if g.o.Late && ent.Kind == "f" && r.Intn(4) == 0 && !(hasCodecSuffix(e) && !g.plainCodec()) {
				// two handles on one file, the first one idle until the second has written and closed
				fl := []int{os.O_RDWR, os.O_WRONLY}[r.Intn(2)]
				if r.Intn(3) == 0 {
					fl |= os.O_APPEND
				}
				if r.Intn(4) == 0 {
					fl |= os.O_CREATE
				}
				op := Op{K: "latewrite", A: e, Flag: fl, Perm: 0o644, N: []int{0, 11, 513, 3000}[r.Intn(4)]}
				g.data(&op)
				if op.Len == 0 {
					op.Len = 1 + r.Intn(40)
				}
				return op
			}
			if g.o.Late && ent.Kind == "f" && r.Intn(5) == 0 && !(hasCodecSuffix(e) && !g.plainCodec()) {
				// a handle is opened, the entry's mode or owner is changed through the filesystem, then the handle writes and closes:
				// the flush must not bring back the attributes the entry had when the handle was opened
				fl := []int{os.O_RDWR, os.O_WRONLY}[r.Intn(2)]
				if r.Intn(3) == 0 {
					fl |= os.O_APPEND
				}
				op := Op{K: "lateattr", A: e, Flag: fl, Perm: perms[r.Intn(len(perms))], Uid: -1, Gid: -1}
				if r.Intn(2) == 0 {
					op.Uid, op.Gid = 1000+r.Intn(5000), 100+r.Intn(5000)
				}
				g.data(&op)
				if op.Len == 0 {
					op.Len = 1 + r.Intn(40)
				}
				return op
			}
			if r.Intn(3) == 0 {
				if ent.Kind == "f" && hasCodecSuffix(e) && !g.plainCodec() {
					continue
				}
				op := Op{K: "create", A: e} // Create on an existing entry truncates (file) or fails (dir)
				g.data(&op)
				op.NoWrite = r.Intn(5) == 0
				return op
			}
			acc := []int{os.O_WRONLY, os.O_RDWR, os.O_RDONLY}[r.Intn(3)]
			fl := acc
			if r.Intn(2) == 0 {
				fl |= os.O_CREATE
			}
			mode := r.Intn(3) // 0 overwrite-in-place, 1 truncate, 2 append
			if acc != os.O_RDONLY {
				switch mode {
				case 1:
					fl |= os.O_TRUNC
				case 2:
					fl |= os.O_APPEND
				}
			}
			if r.Intn(6) == 0 {
				fl |= os.O_SYNC // synchronous I/O changes nothing a caller can observe
			}
			if fl&os.O_CREATE != 0 && r.Intn(5) == 0 {
				fl |= os.O_EXCL
			}
			op := Op{K: "write", A: e, Flag: fl, Perm: perms[r.Intn(len(perms))]}
			g.data(&op)
			op.NoWrite = r.Intn(6) == 0
			if acc == os.O_RDONLY {
				op.NoWrite = true
			}
			return op
		case "read":
			if len(files) == 0 || r.Intn(10) == 0 {
				return Op{K: "read", A: g.missingPath(t)}
			}
			return Op{K: "read", A: g.pick(files)}
		case "remove":
			if e, ok := g.existing(t); ok && r.Intn(8) != 0 {
				return Op{K: "remove", A: e}
			}
			return Op{K: "remove", A: g.missingPath(t)}
		case "removeall":
			if e, ok := g.existing(t); ok && r.Intn(6) != 0 {
				return Op{K: "removeall", A: e}
			}
			return Op{K: "removeall", A: g.missingPath(t)}
		case "rename", "opmove":
			src, ok := g.existing(t)
			if !ok {
				continue
			}
			if k == "rename" && r.Intn(10) == 0 {
				src = g.missingPath(t)
			}
			var dst string
			switch v := r.Intn(20); {
			case v < 10:
				dst = g.newPath(t, t[src].Kind == "f")
			case v < 15:
				if e, ok := g.existing(t); ok {
					dst = e
				} else {
					dst = g.newPath(t, t[src].Kind == "f")
				}
			case v < 17:
				// into the own subtree; a third of these below a component that starts or ends with dots
				c1 := g.pick(g.o.Comps)
				if r.Intn(3) == 0 {
					c1 = []string{"..a", "...", "a..", ".a", "..a b"}[r.Intn(5)]
				}
				dst = src + "/" + c1
				if src == "/" {
					dst = "/" + c1
				}
				if r.Intn(2) == 0 {
					dst = path.Join(dst, g.pick(g.o.Comps))
				}
			case v < 18:
				dst = src
			case v < 19:
				dst = path.Join(g.missingPath(t), g.pick(g.o.Comps))
			default:
				dst = g.newPath(t, t[src].Kind == "f")
			}
			if t[src].Kind == "f" && hasCodecSuffix(dst) && !g.plainCodec() {
				continue
			}
			if k == "opmove" {
				// Operations.Move has no precondition checks of its own: keep to well-formed arguments
				if _, exists := t[dst]; exists || dst == src || strings.HasPrefix(dst, src+"/") {
					continue
				}
				if pe, pok := t[path.Dir(dst)]; path.Dir(dst) != "/" && (!pok || pe.Kind != "d") {
					continue
				}
			}
			return Op{K: k, A: src, B: dst}
		case "chmod":
			e, ok := g.existing(t)
			if !ok || r.Intn(10) == 0 {
				e = g.missingPath(t)
			}
			return Op{K: "chmod", A: e, Perm: perms[r.Intn(len(perms))]}
		case "chown":
			e, ok := g.existing(t)
			if !ok || r.Intn(10) == 0 {
				e = g.missingPath(t)
			}
			return Op{K: "chown", A: e, Uid: 1000 + r.Intn(5000), Gid: 1000 + r.Intn(5000)}
		case "chtimes":
			e, ok := g.existing(t)
			if !ok || r.Intn(10) == 0 {
				e = g.missingPath(t)
			}
			if ent, ok2 := t[e]; ok2 && ent.Mtime > 0 && ent.Atime > 0 && r.Intn(3) == 0 {
				// the same seconds as the entry's current times, other fractions of a second (or none)
				frac := func() int64 { return []int64{0, 1, 125000000, 500000000, 999999999, int64(r.Intn(1000000000))}[r.Intn(6)] }
				return Op{K: "chtimes", A: e, At: ent.Atime/1e9*1e9 + frac(), Mt: ent.Mtime/1e9*1e9 + frac()}
			}
			return Op{K: "chtimes", A: e, At: (1500000000 + int64(r.Intn(100000000))) * 1e9, Mt: (1500000000 + int64(r.Intn(100000000))) * 1e9}
		case "stat":
			if e, ok := g.existing(t); ok && r.Intn(5) != 0 {
				return Op{K: "stat", A: e}
			}
			return Op{K: "stat", A: g.missingPath(t)}
		case "list":
			n := -1
			if g.o.Counts {
				n = []int{-1, 0, 1, 2, 3, 5}[r.Intn(6)]
			}
			if r.Intn(10) == 0 && len(files) > 0 {
				return Op{K: "list", A: g.pick(files), N: n}
			}
			return Op{K: "list", A: g.pick(dirsOf(t)), N: n}
		case "symlink":
			tgt, ok := g.existing(t)
			if !ok {
				continue
			}
			ln := g.newPath(t, false)
			if _, exists := t[ln]; exists {
				continue
			}
			return Op{K: "symlink", A: tgt, B: ln}
		case "archive":
			k := 1 + r.Intn(6)
			tt := Tree{}
			for p, e := range t {
				tt[p] = e
			}
			var ms []Op
			for i := 0; i < k; i++ {
				if r.Intn(4) == 0 {
					p := g.newPath(tt, false)
					if _, exists := tt[p]; exists {
						continue
					}
					ms = append(ms, Op{K: "dir", A: p, Perm: perms[r.Intn(len(perms))]})
					tt[p] = Entry{Kind: "d"}
				} else {
					p := g.newPath(tt, true)
					if _, exists := tt[p]; exists {
						continue
					}
					m := Op{K: "file", A: p, Perm: perms[r.Intn(len(perms))]}
					g.data(&m)
					if g.o.Twins {
						m.Perm, m.Len = 0o644, 300
					} else if r.Intn(5) == 0 {
						m.N = []int{-7, 9, 100000, 512}[r.Intn(4)] // the source changed size after it was scanned
						if m.Len+m.N <= 0 {
							m.N = 0 // a source that was empty when scanned is archived as empty: not a question of this monitor
						}
					}
					ms = append(ms, m)
					tt[p] = Entry{Kind: "f"}
				}
			}
			if len(ms) == 0 {
				continue
			}
			if !g.o.Twins && r.Intn(8) == 0 {
				// one source of the batch cannot be opened when its turn comes (removed or made unreadable after the scan): the call
				// fails part-way; what it completely wrote before that must be on the tape AND in the index, nothing of the rest
				if j := r.Intn(len(ms)); ms[j].K == "file" && ms[j].Len > 0 {
					ms[j].K = "nofile"
				}
			}
			if g.o.Twins {
				return Op{K: "archive", Members: ms, DSeed: r.Uint64(), Mt: 1600000000}
			}
			if g.o.Intruder && r.Intn(5) == 0 {
				return Op{K: "archive", Members: ms, DSeed: r.Uint64(), Flag: 1}
			}
			return Op{K: "archive", Members: ms, DSeed: r.Uint64()}
		case "update":
			if !g.o.Twins && r.Intn(6) == 0 {
				// a replacing update whose only entry has no content (a directory: `stfs operation update` of a directory): one
				// header-only record, which still has to be a complete archive with its end-of-archive marker
				if ds := dirsOf(t); len(ds) > 0 {
					if d := g.pick(ds); d != "/" {
						return Op{K: "update", A: d, Perm: perms[r.Intn(len(perms))], Flag: 2, DSeed: r.Uint64()}
					}
				}
			}
			if len(files) == 0 {
				continue
			}
			f := g.pick(files)
			if hasCodecSuffix(f) && !g.plainCodec() {
				continue
			}
			op := Op{K: "update", A: f, Perm: perms[r.Intn(len(perms))]}
			g.data(&op)
			if op.Len == 0 {
				op.Len = 1 + r.Intn(600)
			}
			if g.o.Twins {
				op.Perm, op.Len, op.Mt = 0o644, 300, 1600000000
			} else if r.Intn(5) == 0 {
				op.N = []int{-7, 9, 100000, 512}[r.Intn(4)]
				if op.Len+op.N <= 0 {
					op.N = 0
				}
			}
			if !g.o.Twins && len(files) > 1 && r.Intn(4) == 0 {
				// a batched update (`stfs operation update` over several files): further members behind the first one; in half of the
				// batches the source of one of them cannot be opened when its turn comes - the call fails part-way, and what it
				// completely wrote before that must be on the tape and in the index
				seen := map[string]bool{f: true}
				for k := 1 + r.Intn(2); k > 0; k-- {
					f2 := g.pick(files)
					if seen[f2] || (hasCodecSuffix(f2) && !g.plainCodec()) {
						continue
					}
					seen[f2] = true
					m := Op{K: "file", A: f2, Perm: perms[r.Intn(len(perms))]}
					g.data(&m)
					if m.Len == 0 {
						m.Len = 1 + r.Intn(600)
					}
					op.Members = append(op.Members, m)
				}
				if len(op.Members) > 0 && r.Intn(2) == 0 {
					op.Members[r.Intn(len(op.Members))].K = "nofile"
				}
			}
			return op
		case "opdelete":
			if e, ok := g.existing(t); ok {
				return Op{K: "opdelete", A: e}
			}
		}
	}
	return Op{K: "stat", A: "/"}
}
