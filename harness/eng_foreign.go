package main

import (
	"github.com/spf13/afero"
	"archive/tar"
	"bytes"
	"encoding/json"
	"fmt"
	"os"
	"path"
	"sort"
	"strings"
	"time"
)

// C17: foreign tar archives open as filesystems; path spellings are interchangeable.

type forP struct {
	Format  string `json:"format"` // ustar | pax | gnu
	Root    string `json:"root"`   // "./" | "/" | "top/"
	RS      int    `json:"rs"`
	Pad     int    `json:"pad"` // extra zero blocks after the trailer (tar blocking factor)
	Global  bool   `json:"global,omitempty"` // pax: the archive starts with a global extended header, as `git archive` writes one
	Dup     bool   `json:"dup,omitempty"`    // one regular member occurs twice (`tar -r` of a changed file): the later one is the file
	Witness string `json:"witness,omitempty"`
}

type fEnt struct {
	Dir  bool
	Data []byte
	Mode int64
	Sym  string // symbolic link member: target as written by tar (relative to the link's directory)
	Hard string // hard link member: model path of the member it links to
	Special byte     // tar.TypeFifo / TypeChar / TypeBlock member (tar of a directory holding device nodes or pipes)
	Holes [][2]int64 // old GNU sparse member as `tar -S` writes it: (offset, length) of the data fragments inside Data
}

func forCases(prop, tier string, seed uint64) []Case {
	n := 60
	if tier == "thorough" {
		n = 700
	}
	var cases []Case
	i := 0
	for rep := 0; rep < n; rep++ {
		for _, f := range []string{"ustar", "pax", "gnu"} {
			for _, root := range []string{"./", "/", "top/", ".hid/", "top dir/", "/srv/data/"} {
				// padding after the trailer as tar's blocking factor produces it (any number of zero blocks up to one tar record)
				p := forP{Format: f, Root: root, RS: []int{1, 20, 64, 128, 512}[(rep+i)%5], Pad: []int{0, 1, 2, 3, 5, 17, 18}[(rep*3+i/3)%7], Global: f == "pax" && rep%3 == 1, Dup: rep%4 == 2}
				pb, _ := json.Marshal(p)
				cases = append(cases, Case{ID: fmt.Sprintf("c17-%04d-%s-%s", i, f, strings.ReplaceAll(root, "/", "_")), Seed: subSeed(seed, prop, tier, fmt.Sprint(i)), Kind: "random", P: pb})
				i++
			}
		}
	}
	// random call histories (the C02 generator and reference model, incl. unusual spellings and exotic values) on a filesystem whose
	// tape starts as a foreign archive with nothing but a top-level directory: every branch of name resolution by root style
	nh := 120
	if tier == "thorough" {
		nh = 3000
	}
	rh := newRand(subSeed(seed, prop, tier, "rooted"))
	hcfgs := someCfgs(rh, 6)
	for k := 0; k < nh; k++ {
		root := []string{"./", "/", "top/", ".hid/", "top dir/", "a/b/", "/srv/data/"}[k%7]
		hc := Cfg{Level: "fastest", RS: []int{1, 3, 20, 64}[k%4], WC: []string{"file", "memory"}[(k/2)%2]} // foreign members are plain: no codecs
		_ = hcfgs
		sp := seqP{Cfg: hc, Steps: 8 + rh.Intn(14), Exotic: k%3 == 2, Root: root, RootFmt: []string{"ustar", "pax", "gnu"}[(k/6)%3]}
		pb, _ := json.Marshal(sp)
		cases = append(cases, Case{ID: fmt.Sprintf("c17-hist-%04d", k), Seed: subSeed(seed, prop, tier, "hist", fmt.Sprint(k)), Kind: "rooted-history", P: pb})
	}
	pb, _ := json.Marshal(forP{Format: "pax", Root: "./", RS: 20, Witness: "chmod-foreign-member"})
	cases = append(cases, Case{ID: "c17-witness-chmod-foreign-member", Seed: 5, Kind: "witness:chmod-foreign-member", P: pb})
	for _, wn := range []string{"symlink-member", "hardlink-member"} {
		pb, _ = json.Marshal(forP{Format: "pax", Root: "./", RS: 20, Witness: wn})
		cases = append(cases, Case{ID: "c17-witness-" + wn, Seed: 5, Kind: "witness:" + wn, P: pb})
	}
	pb, _ = json.Marshal(forP{Format: "gnu", Root: "/", RS: 20, Pad: 17, Witness: "odd-padding"})
	cases = append(cases, Case{ID: "c17-regress-odd-padding", Seed: subSeed(1, "C17", "quick", "34"), Kind: "random", P: pb})
	return cases
}

func genForeignTree(seed uint64, format string) (map[string]*fEnt, []string) {
	r := newRand(seed)
	ents := map[string]*fEnt{}
	var order []string
	comps := []string{"d", "dd", "d_", "e", "sub", "a b", "x_y", "p%q", "data.bin", "README", "f1", "f2", "notes.txt", "D"}
	if format == "pax" || format == "gnu" {
		comps = append(comps, "ä", strings.Repeat("long", 30)+"-name") // non-ASCII and 124 bytes: PAX / GNU long-name territory
		comps = append(comps, strings.Repeat("n", 100), strings.Repeat("m", 101), strings.Repeat("k", 255))
	} else if format == "ustar" {
		comps = append(comps, strings.Repeat("u", 60)) // deeper paths then exceed the 100-byte name field: ustar splits them into prefix + name
	}
	var rec func(dir string, d int)
	rec = func(dir string, d int) {
		n := 1 + r.Intn(5)
		used := map[string]bool{}
		for i := 0; i < n; i++ {
			c := comps[r.Intn(len(comps))]
			if used[c] {
				continue
			}
			used[c] = true
			p := path.Join(dir, c)
			if d < 3 && r.Intn(3) == 0 {
				ents[p] = &fEnt{Dir: true, Mode: 0o755}
				order = append(order, p)
				rec(p, d+1)
			} else {
				sz := []int{0, 1, 511, 512, 513, 3000, 10241, 40000}[r.Intn(8)]
				ents[p] = &fEnt{Data: genContent(sz, dists[r.Intn(3)], r.Uint64()), Mode: []int64{0o644, 0o600, 0o755}[r.Intn(3)]}
				order = append(order, p)
			}
		}
	}
	rec("/", 0)
	if r.Intn(4) == 0 {
		p := "/pipe-or-node"
		if _, exists := ents[p]; !exists {
			ents[p] = &fEnt{Special: []byte{tar.TypeFifo, tar.TypeChar, tar.TypeBlock}[r.Intn(3)], Mode: 0o644}
			order = append(order, p)
		}
	}
	if format == "gnu" && r.Intn(2) == 0 {
		// a file with a hole, archived with `tar -S`: its size on the tape is smaller than its length
		logical := make([]byte, 262144+777)
		copy(logical, genContent(1024, "text", r.Uint64()))
		copy(logical[262144:], genContent(777, "random", r.Uint64()))
		p := "/sparse.img"
		ents[p] = &fEnt{Data: logical, Mode: 0o644, Holes: [][2]int64{{0, 1024}, {262144, 777}}}
		// not the last member: what follows it has to be found
		at := r.Intn(len(order) + 1)
		if at == len(order) && len(order) > 0 {
			at = len(order) - 1
		}
		order = append(order[:at], append([]string{p}, order[at:]...)...)
	}
	if len(order) < 3 {
		for _, c := range []string{"f1", "f2", "README"} {
			p := "/" + c
			if _, ok := ents[p]; !ok {
				ents[p] = &fEnt{Data: genContent(700, "text", r.Uint64()), Mode: 0o644}
				order = append(order, p)
			}
		}
	}
	return ents, order
}

func writeForeignTar(p forP, ents map[string]*fEnt, order []string) ([]byte, error) {
	var buf bytes.Buffer
	tw := tar.NewWriter(&buf)
	format := map[string]tar.Format{"ustar": tar.FormatUSTAR, "pax": tar.FormatPAX, "gnu": tar.FormatGNU}[p.Format]
	mt := time.Unix(1650000000, 0)
	name := func(pp string, dir bool) string {
		rel := strings.TrimPrefix(pp, "/")
		n := p.Root + rel
		if p.Root == "/" {
			n = "/" + rel
		}
		if dir && !strings.HasSuffix(n, "/") {
			n += "/"
		}
		return n
	}
	top := p.Root
	if p.Global && p.Format == "pax" {
		if err := tw.WriteHeader(&tar.Header{Typeflag: tar.TypeXGlobalHeader, Name: "pax_global_header", PAXRecords: map[string]string{"comment": "0123456789abcdef0123456789abcdef01234567"}, Format: tar.FormatPAX}); err != nil {
			return nil, err
		}
	}
	if p.Dup {
		// an older version of the first regular member, written before the current one
		for _, pp := range order {
			if e := ents[pp]; !e.Dir && e.Sym == "" && e.Hard == "" && len(e.Holes) == 0 && path.Dir(pp) == "/" {
				old := genContent(len(e.Data)/2+17, "text", uint64(len(pp)))
				if err := tw.WriteHeader(&tar.Header{Typeflag: tar.TypeDir, Name: top, Mode: 0o755, ModTime: mt, Format: format}); err != nil {
					return nil, err
				}
				if err := tw.WriteHeader(&tar.Header{Typeflag: tar.TypeReg, Name: name(pp, false), Mode: 0o600, Size: int64(len(old)), ModTime: mt.Add(-time.Hour), Format: format}); err != nil {
					return nil, err
				}
				_, _ = tw.Write(old)
				break
			}
		}
	}
	if err := tw.WriteHeader(&tar.Header{Typeflag: tar.TypeDir, Name: top, Mode: 0o755, ModTime: mt, Format: format}); err != nil {
		return nil, err
	}
	for _, pp := range order {
		e := ents[pp]
		h := &tar.Header{Name: name(pp, e.Dir), Mode: e.Mode, ModTime: mt, Format: format, Uid: 1000, Gid: 1000, Uname: "user", Gname: "group"}
		if p.Format != "ustar" && len(pp)%3 == 0 {
			h.Uid, h.Gid = 3000000, 1<<31-1 // beyond the octal field: PAX records / GNU base-256
			if p.Format == "pax" {
				h.ModTime = time.Unix(1650000000, 123456789)
				h.Uname = strings.Repeat("U", 40)
			}
		}
		switch {
		case e.Dir:
			h.Typeflag = tar.TypeDir
		case e.Sym != "":
			h.Typeflag, h.Linkname, h.Mode = tar.TypeSymlink, e.Sym, 0o777
		case e.Hard != "":
			h.Typeflag, h.Linkname = tar.TypeLink, name(e.Hard, false)
		case e.Special != 0:
			h.Typeflag = e.Special
			if e.Special != tar.TypeFifo {
				h.Devmajor, h.Devminor = 1, 3
			}
		default:
			h.Typeflag = tar.TypeReg
			h.Size = int64(len(e.Data))
		}
		if len(e.Holes) > 0 {
			var phys []byte
			for _, fr := range e.Holes {
				phys = append(phys, e.Data[fr[0]:fr[0]+fr[1]]...)
			}
			_ = tw.Flush()
			at := buf.Len()
			h.Size = int64(len(phys))
			h.Uid, h.Gid, h.Uname, h.Gname, h.ModTime = 1000, 1000, "user", "group", mt
			if err := tw.WriteHeader(h); err != nil {
				return nil, fmt.Errorf("%s: %w", h.Name, err)
			}
			if _, err := tw.Write(phys); err != nil {
				return nil, err
			}
			_ = tw.Flush()
			// turn the header into an old GNU sparse header: typeflag 'S', map at 386 (offset[12] numbytes[12] x 4), isextended at 482, realsize at 483
			blk := buf.Bytes()[at : at+512]
			putOct := func(dst []byte, v int64) {
				copy(dst, fmt.Sprintf("%0*o", len(dst)-1, v))
				dst[len(dst)-1] = 0
			}
			blk[156] = tar.TypeGNUSparse
			for i, fr := range e.Holes {
				putOct(blk[386+i*24:386+i*24+12], fr[0])
				putOct(blk[386+i*24+12:386+i*24+24], fr[1])
			}
			blk[482] = 0
			putOct(blk[483:495], int64(len(e.Data)))
			copy(blk[148:156], "        ")
			var sum int64
			for _, b := range blk {
				sum += int64(b)
			}
			copy(blk[148:156], fmt.Sprintf("%06o\x00 ", sum))
			continue
		}
		if err := tw.WriteHeader(h); err != nil {
			return nil, fmt.Errorf("%s: %w", h.Name, err)
		}
		if !e.Dir && e.Sym == "" && e.Hard == "" && e.Special == 0 {
			if _, err := tw.Write(e.Data); err != nil {
				return nil, err
			}
		}
	}
	if err := tw.Close(); err != nil {
		return nil, err
	}
	buf.Write(make([]byte, 512*p.Pad))
	return buf.Bytes(), nil
}

func forRun(prop, tier string, c Case, w *Worker) (res Result) {
	if c.Kind == "rooted-history" {
		res = seqRun("C02", tier, c, w)
		if res.Verdict == "violation" {
			res.Sig = "c17|" + strings.TrimPrefix(res.Sig, "c02|")
		}
		return
	}
	var p forP
	_ = json.Unmarshal(c.P, &p)
	kind := "random"
	if p.Witness != "" {
		kind = "witness:" + p.Witness
	}
	ents, order := genForeignTree(c.Seed, p.Format)
	if p.Witness == "symlink-member" || p.Witness == "hardlink-member" {
		// what `tar cf x.tar .` produces for a directory holding a file, a link to it and another file
		ents = map[string]*fEnt{"/d": {Dir: true, Mode: 0o755}, "/d/f": {Data: []byte("hello"), Mode: 0o644}, "/z": {Data: []byte("zz"), Mode: 0o644}}
		order = []string{"/d", "/d/f", "/d/l", "/z"}
		if p.Witness == "symlink-member" {
			ents["/d/l"] = &fEnt{Sym: "f"}
		} else {
			ents["/d/l"] = &fEnt{Hard: "/d/f", Mode: 0o644}
		}
	}
	img, err := writeForeignTar(p, ents, order)
	if err != nil && p.Format == "ustar" {
		// a path this format cannot encode: fall back to the tree without long components
		ents, order = genForeignTree(c.Seed, "ustar-short")
		img, err = writeForeignTar(p, ents, order)
	}
	if err != nil {
		res.Verdict, res.Msg = "inconclusive", "writing the foreign archive: "+err.Error()
		return
	}
	desc := fmt.Sprintf("%s root=%q rs=%d pad=%d members=%d", p.Format, p.Root, p.RS, p.Pad, len(order))
	res.setAdd("formats", p.Format+" "+p.Root)
	var log []string
	res.Detail = map[string]any{"archive": desc, "members": order, "steps": &log}
	viol := func(sig, format string, a ...any) {
		res.violate("c17|"+kind+"|"+sig, "["+desc+"] "+fmt.Sprintf(format, a...))
	}
	dir := w.NewDir("c17")
	_ = os.MkdirAll(tapeDir(dir), 0o777)
	if err := os.WriteFile(tapeDir(dir)+"/drive.tar", img, 0o666); err != nil {
		res.Verdict, res.Msg = "inconclusive", err.Error()
		return
	}
	cfg := Cfg{Level: "fastest", RS: p.RS, WC: "file"}
	rig, err := NewRig(dir, cfg)
	if err != nil {
		res.Verdict, res.Msg = "inconclusive", "rig: "+err.Error()
		return
	}
	defer rig.Close()
	log = append(log, "Initialize")
	if err := rig.Init(); err != nil {
		viol("init", "opening the archive as a filesystem failed: %v", err)
		return
	}
	if got, _ := os.ReadFile(rig.Drive); !bytes.HasPrefix(got, img) {
		viol("init-rewrote", "Initialize changed the archive's bytes")
		return
	}
	if len(mustRead(rig.Drive)) != len(img) {
		viol("init-appended", "Initialize appended %d bytes although the archive has a top-level directory", len(mustRead(rig.Drive))-len(img))
		return
	}
	want := Tree{}
	for pp, e := range ents {
		if e.Dir {
			want[pp] = Entry{Kind: "d"}
		} else if e.Sym != "" || e.Hard != "" || e.Special != 0 {
			want[pp] = Entry{Kind: "l"}
		} else {
			want[pp] = Entry{Kind: "f", Size: int64(len(e.Data)), RdLen: int64(len(e.Data)), Sum: sum(e.Data)}
		}
	}
	cmp := func(phase string, fsTree Tree, w2 Tree) bool {
		for pp, e := range w2 {
			g, ok := fsTree[pp]
			if !ok {
				viol(phase+"|missing", "%s: member %q is not listed under its directory", phase, pp)
				return false
			}
			if e.Kind == "l" {
				continue // a link member has to be listed; how it presents itself is not judged
			}
			if g.Kind != e.Kind || g.Size != e.Size || g.RdLen != e.RdLen || g.Sum != e.Sum {
				viol(phase+"|differs", "%s: member %q reads back as %+v, the archive holds kind=%s size=%d sum=%s", phase, pp, g, e.Kind, e.Size, e.Sum)
				return false
			}
		}
		for pp := range fsTree {
			if _, ok := w2[pp]; !ok {
				viol(phase+"|extra", "%s: %q is listed but is not a member", phase, pp)
				return false
			}
		}
		return true
	}
	log = append(log, "walk")
	t, err := WalkTree(rig.FS, true)
	if err != nil {
		viol("walk", "walking the opened archive: %v", err)
		return
	}
	if !cmp("open", t, want) {
		return
	}
	res.count("members_read_back", int64(len(want)))
	// path spellings
	for i, pp := range order {
		if i >= 12 {
			break
		}
		rel := strings.TrimPrefix(pp, "/")
		var infos []string
		for _, sp := range []string{"/" + rel, rel, "./" + rel} {
			fi, err := rig.FS.Stat(sp)
			if err != nil {
				infos = append(infos, "err")
				log = append(log, fmt.Sprintf("Stat(%q) -> %v", sp, err))
			} else {
				infos = append(infos, fmt.Sprintf("dir=%v size=%d", fi.IsDir(), sizeOfInfo(fi)))
			}
		}
		if infos[0] == "err" || infos[0] != infos[1] || infos[1] != infos[2] {
			viol("spellings", "Stat of %q, %q, %q disagrees: %v", "/"+rel, rel, "./"+rel, infos)
			return
		}
		res.count("spellings_checked", 3)
	}
	// further calls: add files and directories under new names, change attributes of original members
	r := newRand(c.Seed ^ 77)
	var files []string
	for _, pp := range order {
		if !ents[pp].Dir {
			files = append(files, pp)
		}
	}
	if p.Witness == "chmod-foreign-member" {
		var f string
		for _, pp := range files {
			if len(ents[pp].Data) > 0 {
				f = pp
				break
			}
		}
		log = append(log, fmt.Sprintf("Chmod(%q)", f))
		if err := rig.FS.Chmod(f, 0o600); err != nil {
			viol("chmod", "Chmod(%q): %v", f, err)
			return
		}
		fi, err := rig.FS.Stat(f)
		if err != nil || fi.Size() != int64(len(ents[f].Data)) {
			viol("chmod-size", "after Chmod on the original member %q Stat reports size %d (err %v), the member has %d bytes", f, sizeOfInfo(fi), err, len(ents[f].Data))
			return
		}
		res.NonTrivial = true
		return
	}
	dirs := []string{"/"}
	for _, pp := range order {
		if ents[pp].Dir {
			dirs = append(dirs, pp)
		}
	}
	nAdd := 5 + r.Intn(6)
	for i := 0; i < nAdd; i++ {
		d := dirs[r.Intn(len(dirs))]
		np := path.Join(d, fmt.Sprintf("new-%d", i))
		if r.Intn(4) == 0 {
			log = append(log, fmt.Sprintf("Mkdir(%q)", np))
			if err := rig.FS.Mkdir(np, 0o755); err != nil {
				viol("add-mkdir", "Mkdir(%q) next to the original members: %v", np, err)
				return
			}
			want[np] = Entry{Kind: "d"}
			dirs = append(dirs, np)
		} else {
			data := genContent([]int{0, 5, 513, 12000}[r.Intn(4)], "text", r.Uint64())
			log = append(log, fmt.Sprintf("Create(%q)+Write(%d)+Close", np, len(data)))
			h, err := rig.FS.Create(np)
			if err != nil {
				viol("add-create", "Create(%q) next to the original members: %v", np, err)
				return
			}
			if _, err := h.Write(data); err != nil {
				viol("add-write", "Write(%q): %v", np, err)
				return
			}
			if err := h.Close(); err != nil {
				viol("add-close", "Close(%q): %v", np, err)
				return
			}
			want[np] = Entry{Kind: "f", Size: int64(len(data)), RdLen: int64(len(data)), Sum: sum(data)}
		}
		res.count("entries_added", 1)
	}
	log = append(log, "walk")
	rig.LocksSettled()
	t, err = WalkTree(rig.FS, true)
	if err != nil {
		viol("walk-after-add", "walking after adding entries: %v", err)
		return
	}
	if !cmp("after-add", t, want) {
		return
	}
	// arbitrary further calls on original members and added entries alike: rename, remove, recursive remove, rewrite
	nMut := 3 + r.Intn(4)
	for i := 0; i < nMut; i++ {
		var fs2, ds2 []string
		for pp, e := range want {
			if e.Kind == "f" {
				fs2 = append(fs2, pp)
			} else if e.Kind == "d" && pp != "/" {
				ds2 = append(ds2, pp)
			}
		}
		sort.Strings(fs2)
		sort.Strings(ds2)
		allDirs := append([]string{"/"}, ds2...)
		moveTree := func(from, to string) {
			for pp, e := range want {
				if pp == from || strings.HasPrefix(pp, from+"/") {
					delete(want, pp)
					want[to+strings.TrimPrefix(pp, from)] = e
				}
			}
		}
		dropTree := func(from string) {
			for pp := range want {
				if pp == from || strings.HasPrefix(pp, from+"/") {
					delete(want, pp)
				}
			}
		}
		what := ""
		switch k := r.Intn(6); {
		case k == 0 && len(fs2) > 0:
			f := fs2[r.Intn(len(fs2))]
			to := path.Join(allDirs[r.Intn(len(allDirs))], fmt.Sprintf("moved-%d", i))
			what = fmt.Sprintf("Rename(%q,%q)", f, to)
			log = append(log, what)
			if err := rig.FS.Rename(f, to); err != nil {
				viol("further|rename-file", "%s: %v", what, err)
				return
			}
			moveTree(f, to)
		case k == 1 && len(ds2) > 0:
			d := ds2[r.Intn(len(ds2))]
			var cands []string
			for _, x := range allDirs {
				if x != d && !strings.HasPrefix(x, d+"/") {
					cands = append(cands, x)
				}
			}
			to := path.Join(cands[r.Intn(len(cands))], fmt.Sprintf("moved dir-%d", i))
			what = fmt.Sprintf("Rename(%q,%q)", d, to)
			log = append(log, what)
			if err := rig.FS.Rename(d, to); err != nil {
				viol("further|rename-dir", "%s: %v", what, err)
				return
			}
			moveTree(d, to)
		case k == 2 && len(fs2) > 0:
			f := fs2[r.Intn(len(fs2))]
			what = fmt.Sprintf("Remove(%q)", f)
			log = append(log, what)
			if err := rig.FS.Remove(f); err != nil {
				viol("further|remove", "%s: %v", what, err)
				return
			}
			delete(want, f)
		case k == 3 && len(ds2) > 0:
			d := ds2[r.Intn(len(ds2))]
			what = fmt.Sprintf("RemoveAll(%q)", d)
			log = append(log, what)
			if err := rig.FS.RemoveAll(d); err != nil {
				viol("further|removeall", "%s: %v", what, err)
				return
			}
			dropTree(d)
		case len(fs2) > 0:
			f := fs2[r.Intn(len(fs2))]
			data := genContent([]int{0, 7, 700, 9000}[r.Intn(4)], "text", r.Uint64())
			what = fmt.Sprintf("WriteFile(%q, %d bytes)", f, len(data))
			log = append(log, what)
			if err := afero.WriteFile(rig.FS, f, data, 0o644); err != nil {
				viol("further|rewrite", "%s: %v", what, err)
				return
			}
			want[f] = Entry{Kind: "f", Size: int64(len(data)), RdLen: int64(len(data)), Sum: sum(data)}
		default:
			continue
		}
		res.count("further_calls", 1)
		rig.LocksSettled()
		t, err = WalkTree(rig.FS, true)
		if err != nil {
			viol("further|walk", "walking after %s: %v", what, err)
			return
		}
		if !cmp("after "+strings.SplitN(what, "(", 2)[0], t, want) {
			return
		}
	}
	// rebuild from the tape alone
	rig.LocksSettled()
	log = append(log, "rebuild")
	reb, err := walkVia(w, cfg, dir, false, "c17reb")
	if err != nil {
		viol("rebuild", "rebuilding the index from the tape (archive + appended records): %v", err)
		return
	}
	if !cmp("after-rebuild", reb, want) {
		return
	}
	res.NonTrivial = len(order) >= 3
	res.Key = sum(img)
	res.Detail = nil
	res.Sample = map[string]any{"archive": desc, "members": order, "steps": log}
	return
}

func sizeOfInfo(fi os.FileInfo) int64 {
	if fi == nil {
		return -1
	}
	if fi.IsDir() {
		return 0
	}
	return fi.Size()
}

func mustRead(p string) []byte {
	b, _ := os.ReadFile(p)
	return b
}

func sortedKeys(t Tree) []string {
	var k []string
	for p := range t {
		k = append(k, p)
	}
	sort.Strings(k)
	return k
}

func init() {
	register(&Engine{Name: "foreign", Props: []string{"C17"}, Cases: forCases, Run: forRun})
	propMeta["C17"] = PropMeta{Level: "exploration",
		Rule:        "per case a generated tree (depth <= 4, names with spaces, non-ASCII, '_' and '%', one 124-byte component for PAX/GNU, sizes 0..40000) is written by archive/tar in USTAR, PAX or GNU format with members named under './', '/', 'top/', '.hid/', 'top dir/' or '/srv/data/' (absolute names as `tar -P` keeps them) and a top-level directory entry (optionally followed by blocking-factor padding); half of the gnu archives hold an old-GNU sparse member as `tar -S` writes it (not last), a third of the pax archives start with a global extended header as `git archive` writes it, a quarter hold one member twice (`tar -r` of a changed file: the later copy is the file), a quarter hold a fifo / character / block device member (has to be listed; reading it has to return); two witness archives hold a symbolic resp. hard link member (open findings), opened through the documented composition (Initialize + NewCacheFilesystem) with record size 1, 20 or 64; every member must be listed under its directory and read back byte-identical, three spellings of up to 12 paths must agree, 5-10 entries added through the filesystem must coexist with the members, 3-6 further calls (rename of a file / of a directory, Remove, RemoveAll, rewrite - on original members and added entries alike) must each leave exactly the expected tree, all of it live and after a rebuild from the tape, and Initialize must not change the archive; plus (rooted histories) random call histories from the C02 generator (8-21 calls, unusual spellings, exotic values) against the reference model on a filesystem whose tape starts as a ustar / pax / gnu archive holding only a top-level directory named ./, /, top/, .hid/, top dir/ or a/b/ (every call outcome and the full tree compared after every call); non-trivial = at least 3 members; distinct = distinct archive bytes",
		Assumptions: []string{"the archive is written by archive/tar (sparse headers hand-patched to the old GNU layout); blocking-factor padding as GNU tar produces it is imitated by appending zero blocks"}}
}
