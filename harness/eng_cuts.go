package main

import (
	"bytes"
	"encoding/json"
	"fmt"
	"os"
	"sort"
	"strings"
)

// C06: a torn tail never costs more than the torn record (every prefix length of small tapes; seam-derived cut points of larger ones).

type cutP struct {
	Cfg   Cfg  `json:"cfg"`
	Steps int  `json:"steps"`
	Large int  `json:"large,omitempty"` // a tape holding one file of this many bytes (size thresholds in the restore path)
	All   bool `json:"all"` // every byte length; otherwise write boundaries +-{0,1,255,511} and sampled interior offsets
	Shard int  `json:"shard"`
	Of    int  `json:"of"` // exhaustive cases are sharded: this case covers the lengths L with L % Of == Shard (the shards rebuild the same history; their tapes differ in timestamps only)
}

func cutCases(prop, tier string, seed uint64) []Case {
	r := newRand(subSeed(seed, prop, tier))
	var cases []Case
	cfgs := []Cfg{
		{Level: "fastest", RS: 20, WC: "file"},
		{Sig: "minisign", Enc: "age", Comp: "gzip", Level: "fastest", RS: 3, WC: "file"},
		{Level: "fastest", RS: 1, WC: "file"},
		{Sig: "pgp", Level: "fastest", RS: 7, WC: "file"},
	}
	nAll, nSampled := 4, 8
	if tier == "thorough" {
		nAll, nSampled = 48, 240
		cfgs = append(cfgs, Cfg{Enc: "pgp", Level: "fastest", RS: 2, WC: "file"}, Cfg{Comp: "zstandard", Level: "fastest", RS: 64, WC: "file"},
			Cfg{Comp: "lz4", Enc: "age", Sig: "pgp", Level: "balanced", RS: 3, WC: "memory"}, Cfg{Comp: "bzip2", Sig: "minisign", Level: "fastest", RS: 20, WC: "file"})
	}
	const shards = 8
	for i := 0; i < nAll; i++ {
		steps := 4 + r.Intn(4)
		for sh := 0; sh < shards; sh++ {
			pb, _ := json.Marshal(cutP{Cfg: cfgs[i%len(cfgs)], Steps: steps, All: true, Shard: sh, Of: shards})
			cases = append(cases, Case{ID: fmt.Sprintf("c06-all-%03d-%d", i, sh), Seed: subSeed(seed, prop, tier, "all", fmt.Sprint(i)), Kind: "exhaustive", P: pb})
		}
	}
	// large records: restore paths may switch strategy above some size
	largeCfgs := []Cfg{{Level: "fastest", RS: 20, WC: "file"}, {Comp: "zstandard", Level: "fastest", RS: 20, WC: "file"}, {Sig: "pgp", Level: "fastest", RS: 64, WC: "file"}, {Enc: "age", Comp: "gzip", Level: "fastest", RS: 3, WC: "memory"}}
	nLarge := 2
	if tier == "thorough" {
		nLarge = 8
	}
	for i := 0; i < nLarge; i++ {
		pb, _ := json.Marshal(cutP{Cfg: largeCfgs[i%len(largeCfgs)], Large: []int{2<<20 + 777, 1<<20 + 1, 9<<20 + 5, 70001}[(i/len(largeCfgs)+i)%4]})
		cases = append(cases, Case{ID: fmt.Sprintf("c06-large-%03d", i), Seed: subSeed(seed, prop, tier, "large", fmt.Sprint(i)), Kind: "large", P: pb})
	}
	more := someCfgs(r, 8)
	for i := 0; i < nSampled; i++ {
		pb, _ := json.Marshal(cutP{Cfg: more[i%len(more)], Steps: 12 + r.Intn(14)})
		cases = append(cases, Case{ID: fmt.Sprintf("c06-sampled-%03d", i), Seed: subSeed(seed, prop, tier, "smp", fmt.Sprint(i)), Kind: "sampled", P: pb})
	}
	return cases
}

type tapeUnderCut struct {
	cfg      Cfg
	dir      string
	img      []byte
	recs     []TapeRec
	content  map[int64][]byte // offset of a content-bearing record -> its plaintext (restored from the intact tape)
	ops      []string
	onDisk   bool
	writeEnd []int64 // byte offsets at which a write issued to the drive ended (recorded by the drive seam)
}

// buildTape runs a generated history (fs-level calls plus batched archive calls) and returns the tape with everything the oracle needs.
func buildTape(w *Worker, cfg Cfg, seed uint64, steps int, maxLen int, fixed ...Op) (*tapeUnderCut, error) {
	dir := w.NewDir("cutsrc")
	rig, err := NewRig(dir, cfg)
	if err != nil {
		return nil, err
	}
	defer rig.Close()
	rig.Seams.logW = true
	if err := rig.Init(); err != nil {
		return nil, err
	}
	t := &tapeUnderCut{cfg: rig.Cfg, dir: dir, content: map[int64][]byte{}}
	gen := NewGen(newRand(seed), GenOpts{Cfg: rig.Cfg, Batched: true, BiasMoves: true, MaxLen: maxLen})
	tree, _ := WalkTree(rig.FS, false)
	if len(fixed) > 0 {
		steps = len(fixed)
	}
	for i := 0; i < steps; i++ {
		var op Op
		if len(fixed) > 0 {
			op = fixed[i]
		} else {
			op = gen.Next(tree)
		}
		if op.K == "stat" || op.K == "list" || op.K == "read" {
			i--
			continue
		}
		t.ops = append(t.ops, op.String())
		_ = execOp(rig, op)
		if held := rig.LocksSettled(); len(held) > 0 {
			return nil, fmt.Errorf("locks held after %s: %v", op, held)
		}
		tree, err = WalkTree(rig.FS, false)
		if err != nil {
			return nil, fmt.Errorf("walk after %s: %w", op, err)
		}
	}
	rig.LocksSettled()
	t.img, err = os.ReadFile(rig.Drive)
	if err != nil {
		return nil, err
	}
	t.recs, _, err = ScanTape(t.img, rig.Cfg, &cryptoView{EncIdentity: rig.RC.Identity})
	if err != nil {
		return nil, err
	}
	rs := int64(rig.Cfg.RS)
	for _, rc := range t.recs {
		if rc.Inner == nil {
			return nil, fmt.Errorf("record at %d undecodable: %s", rc.Off, rc.DecodeErr)
		}
		if isRegular(rc.Inner) && (stfsAction(rc.Inner) == "CREATE" || rc.Inner.PAXRecords["STFS.ReplacesContent"] == "true") {
			if _, mv := rc.Inner.PAXRecords["STFS.ReplacesName"]; mv {
				continue
			}
			blk := rc.Off / 512
			b, err := fetchBytes(rig, blk/rs, blk%rs)
			if err != nil {
				return nil, fmt.Errorf("intact tape: fetch at %d: %w", rc.Off, err)
			}
			t.content[rc.Off] = b
		}
	}
	rig.Seams.mu.Lock()
	for _, e := range rig.Seams.wlog {
		t.writeEnd = append(t.writeEnd, e.Off+int64(e.Len))
	}
	rig.Seams.mu.Unlock()
	return t, nil
}

// completeRecords: how many leading records are completely contained in the first L bytes (header blocks and all content bytes).
func (t *tapeUnderCut) completeRecords(L int64) int {
	k := 0
	for _, rc := range t.recs {
		if rc.ContentOff+rc.ContentLen <= L && rc.ContentOff <= L {
			k++
		} else {
			break
		}
	}
	return k
}

func rowKey(name string) string { return normRowName(name) }

func nodeDiff(r Row, n *RNode, rs int64) string {
	off := (r.Record*rs + r.Block) * 512
	var ds []string
	if byte(r.Typeflag) != n.Typeflag && !(r.Typeflag == '0' && n.Typeflag == 0) {
		ds = append(ds, fmt.Sprintf("typeflag %c/%c", rune(r.Typeflag), rune(n.Typeflag)))
	}
	if r.Size != n.Size {
		ds = append(ds, fmt.Sprintf("size %d/%d", r.Size, n.Size))
	}
	if r.Mode != n.Mode {
		ds = append(ds, fmt.Sprintf("mode %o/%o", r.Mode, n.Mode))
	}
	if r.UID != int64(n.Uid) || r.GID != int64(n.Gid) {
		ds = append(ds, fmt.Sprintf("owner %d:%d/%d:%d", r.UID, r.GID, n.Uid, n.Gid))
	}
	if off != n.ContentOff {
		ds = append(ds, fmt.Sprintf("position %d/%d", off, n.ContentOff))
	}
	return strings.Join(ds, ", ")
}

// judgeCut rebuilds the index from the first L bytes and applies C06's oracle.
func (t *tapeUnderCut) judgeCut(rig *Rig, L int64, res *Result, kind string) bool {
	// cut points are visited in descending order, so the drive file only ever has to be truncated
	var werr error
	if st, err := os.Stat(rig.Drive); err == nil && st.Size() >= L && t.onDisk {
		werr = os.Truncate(rig.Drive, L)
	} else {
		werr = os.WriteFile(rig.Drive, t.img[:L], 0o666)
		t.onDisk = true
	}
	if werr != nil {
		res.Verdict, res.Msg = "inconclusive", werr.Error()
		return false
	}
	note("rebuild of the first %d of %d bytes", L, len(t.img))
	ierr := runIndex(rig, true)
	res.count("rebuilds", 1)
	if ierr != nil {
		res.count("rebuilds_returning_error", 1)
	}
	viol := func(sig, format string, a ...any) bool {
		res.violate("c06|"+kind+"|"+sig, fmt.Sprintf("[%s] tape cut at byte %d of %d (Index err=%v): ", t.cfg, L, len(t.img), ierr)+fmt.Sprintf(format, a...))
		res.Detail = map[string]any{"cfg": t.cfg, "cut": L, "tape_len": len(t.img), "ops": t.ops, "records": func() (s []string) {
			for _, r := range t.recs {
				s = append(s, describeRec(r))
			}
			return
		}()}
		return false
	}
	if held := rig.LocksSettled(); len(held) > 0 {
		return viol("locks", "locks held after the rebuild: %v", held)
	}
	rows, err := DumpRows(rig.DB)
	if err != nil {
		res.Verdict, res.Msg = "inconclusive", err.Error()
		return false
	}
	k := t.completeRecords(L)
	want := Interpret(t.recs, t.cfg, k)
	var alt RState
	torn := -1
	if k < len(t.recs) && t.recs[k].Off < L {
		torn = k
		alt = want.clone()
		alt.applyRecord(t.recs[k], t.cfg)
	}
	// names the torn record may touch
	tornNames := map[string]bool{}
	if torn >= 0 && t.recs[torn].Inner != nil {
		h := t.recs[torn].Inner
		tornNames[rowKey(stripCodecSuffix(h.Name, t.cfg))] = true
		tornNames[rowKey(h.Name)] = true
		if rn, ok := h.PAXRecords["STFS.ReplacesName"]; ok {
			tornNames[rowKey(rn)] = true
		}
	}
	wantN, altN := map[string]*RNode{}, map[string]*RNode{}
	for n, v := range want {
		wantN[rowKey(n)] = v
	}
	for n, v := range alt {
		altN[rowKey(n)] = v
	}
	rs := int64(t.cfg.RS)
	seen := map[string]bool{}
	for _, r := range rows {
		if r.Deleted == 1 {
			continue
		}
		key := rowKey(r.Name)
		seen[key] = true
		wn, inWant := wantN[key]
		if inWant {
			if d := nodeDiff(r, wn, rs); d == "" {
				continue
			} else if !tornNames[key] {
				return viol("untorn-entry-differs", "entry %q is not named by the torn record but differs from the state after the last complete record (%d complete): %s (index/expected)", r.Name, k, d)
			}
		}
		if tornNames[key] {
			if an, ok := altN[key]; ok {
				if d := nodeDiff(r, an, rs); d == "" {
					continue
				} else if inWant {
					return viol("torn-entry-neither", "entry %q named by the torn record matches neither the state before nor after that record: %s", r.Name, d)
				} else {
					return viol("torn-entry-differs", "entry %q created by the torn record differs from that record: %s", r.Name, d)
				}
			}
			if inWant {
				return viol("torn-entry-differs", "entry %q differs from the state before the torn record and the torn record does not produce it: %s", r.Name, nodeDiff(r, wn, rs))
			}
		}
		return viol("phantom-entry", "index contains %q, which no completely written record (first %d) and not the torn record produces", r.Name, k)
	}
	for key, wn := range wantN {
		if seen[key] {
			continue
		}
		if tornNames[key] {
			if _, ok := altN[key]; !ok {
				continue // the torn record deletes / renames it
			}
		}
		return viol("lost-entry", "entry %q (written by a complete record at byte %d) is missing from the rebuilt index", wn.Name, wn.LastOff)
	}
	// contents: every untorn entry restores byte-exactly; the torn entry restores correctly or fails (recovery.Fetch, and Open + ReadAll through the filesystem layer)
	for _, r := range rows {
		if r.Deleted == 1 || (r.Typeflag != '0' && r.Typeflag != 0) {
			continue
		}
		off := (r.Record*rs + r.Block) * 512
		wantB, ok := t.content[off]
		if !ok {
			continue
		}
		got, ferr := fetchBytes(rig, r.Record, r.Block)
		res.count("restores", 1)
		isTorn := torn >= 0 && t.recs[torn].Off == off
		if isTorn {
			if ferr == nil && !bytes.Equal(got, wantB) {
				return viol("torn-restore-wrong-data", "restoring %q, whose content record is torn, returned success with %d bytes instead of an error (record carries %d)", r.Name, len(got), len(wantB))
			}
			res.count("torn_restores", 1)
			// the same through a file handle of the filesystem layer (only when the index has a root: Initialize then writes nothing)
			hasRoot := false
			for _, rr := range rows {
				if rr.Deleted != 1 && normRowName(rr.Name) == "/" {
					hasRoot = true
				}
			}
			if hasRoot {
				if rig.FS == nil {
					if err := rig.Init(); err != nil {
						continue
					}
				}
				got2, rerr := ReadAllFile(rig.FS, normRowName(r.Name))
				rig.LocksSettled()
				if rerr == nil && !bytes.Equal(got2, wantB) {
					return viol("torn-read-wrong-data", "reading %q, whose content record is torn, through a file handle returned %d bytes and no error (record carries %d)", r.Name, len(got2), len(wantB))
				}
				res.count("torn_reads_through_handles", 1)
			}
			continue
		}
		if ferr != nil {
			return viol("untorn-restore-error", "restoring %q (content record at byte %d, completely on the tape) failed: %v", r.Name, off, ferr)
		}
		if !bytes.Equal(got, wantB) {
			return viol("untorn-restore-bytes", "restoring %q returned %d bytes (sum %s), its content record holds %d (sum %s)", r.Name, len(got), sum(got), len(wantB), sum(wantB))
		}
	}
	return true
}

func cutRun(prop, tier string, c Case, w *Worker) (res Result) {
	var p cutP
	_ = json.Unmarshal(c.P, &p)
	res.setAdd("configs", p.Cfg.String())
	maxLen := 3 * 512
	if !p.All {
		maxLen = 0
	}
	var fixed []Op
	if p.Large > 0 {
		fixed = []Op{{K: "mkdir", A: "/d", Perm: 0o755}, {K: "create", A: "/d/small", Len: 300, Dist: "text", DSeed: 1}, {K: "create", A: "/d/big", Len: p.Large, Dist: "random", DSeed: c.Seed}, {K: "chmod", A: "/d/small", Perm: 0o600}}
	}
	t, err := buildTape(w, p.Cfg, c.Seed, p.Steps, maxLen, fixed...)
	if err != nil {
		res.Verdict, res.Msg = "inconclusive", "building the tape: "+err.Error()
		return
	}
	d := w.NewDir("cut")
	_ = os.MkdirAll(tapeDir(d), 0o777)
	rig, err := NewRig(d, t.cfg)
	if err != nil {
		res.Verdict, res.Msg = "inconclusive", "rig: "+err.Error()
		return
	}
	defer rig.Close()
	var cuts []int64
	if p.All {
		of := int64(p.Of)
		if of < 1 {
			of = 1
		}
		for L := int64(p.Shard); L <= int64(len(t.img)); L += of {
			cuts = append(cuts, L)
		}
		if p.Shard == 0 {
			res.count("exhaustive_spaces", 1)
		}
	} else {
		set := map[int64]bool{0: true, int64(len(t.img)): true}
		add := func(x int64) {
			if x >= 0 && x <= int64(len(t.img)) {
				set[x] = true
			}
		}
		for _, e := range t.writeEnd {
			for _, dlt := range []int64{0, 1, 255, 511, -1, -255, -511} {
				add(e + dlt)
			}
		}
		for _, rc := range t.recs {
			for _, x := range []int64{rc.Off, rc.Off + 1, rc.Off + 511, rc.Off + 512, rc.ContentOff, rc.ContentOff - 1, rc.ContentOff + 1, rc.ContentOff + rc.ContentLen, rc.ContentOff + rc.ContentLen - 1, rc.ContentOff + rc.ContentLen/2} {
				add(x)
			}
		}
		r := newRand(c.Seed)
		nrand := 300
		if p.Large > 0 {
			nrand = 120
		}
		for i := 0; i < nrand; i++ {
			add(int64(r.Intn(len(t.img) + 1)))
		}
		for x := range set {
			cuts = append(cuts, x)
		}
		sort.Slice(cuts, func(i, j int) bool { return cuts[i] < cuts[j] })
	}
	sort.Slice(cuts, func(i, j int) bool { return cuts[i] > cuts[j] })
	for _, L := range cuts {
		if !t.judgeCut(rig, L, &res, c.Kind) {
			return
		}
	}
	res.count("cut_points", int64(len(cuts)))
	res.count("tape_bytes", int64(len(t.img)))
	res.count("tape_records", int64(len(t.recs)))
	res.count("drive_write_boundaries", int64(len(t.writeEnd)))
	res.NonTrivial = len(t.recs) >= 4 && len(cuts) >= 100
	res.Key = sum(t.img) + fmt.Sprint(p.Shard)
	res.Sample = map[string]any{"cfg": t.cfg.String(), "ops": t.ops, "tape_bytes": len(t.img), "records": len(t.recs), "cut_points": len(cuts), "every_byte_length": p.All}
	return
}

func init() {
	register(&Engine{Name: "cuts", Props: []string{"C06"}, Cases: cutCases, Run: cutRun})
	propMeta["C06"] = PropMeta{Level: "fault_enumeration",
		Rule:        "per case a tape is produced by a generated history (fs-level calls, batched archive/update/delete/move, biased to moves); 'exhaustive' cases (4-7 calls) rebuild the index (recovery.Index, overwrite) from EVERY prefix length 0..len(tape); 'sampled' cases (12-25 calls) from every end of a write issued to the drive (recorded by the drive seam) +-{0,1,255,511}, every record start / content start / content end +-1 and 300 PRNG offsets; after each rebuild (which may return an error but must return): index rows == state of an independent record interpreter after the last completely contained record, except for the entry named by the torn record, which may equal that record; every untorn file restores byte-exactly, the torn one restores correctly or fails; non-trivial = at least 4 records and 100 cut points; distinct = distinct tape; a fifth of the contents of at least 1 KiB are themselves tar streams whose members are named like entries of the tree and carry STFS action records",
		Assumptions: []string{"a record counts as completely written when its header blocks and all its content bytes are on the tape (padding and trailer not required)", "termination is decided by the no-progress watchdog"}}
}
