module verif/harness

go 1.21

require (
	aead.dev/minisign v0.3.0
	github.com/ProtonMail/go-crypto v1.0.0
	github.com/ProtonMail/gopenpgp/v2 v2.7.5
	github.com/anishathalye/porcupine v1.3.0
	github.com/fclairamb/go-log v0.5.0
	github.com/pojntfx/stfs v0.0.0
	github.com/spf13/afero v1.11.0
	modernc.org/sqlite v1.31.1
)

require (
	filippo.io/age v1.2.0 // indirect
	github.com/ProtonMail/go-mime v0.0.0-20230322103455-7d82a3887f2f // indirect
	github.com/andybalholm/brotli v1.1.0 // indirect
	github.com/cloudflare/circl v1.3.9 // indirect
	github.com/cosnicolaou/pbzip2 v1.0.3 // indirect
	github.com/dsnet/compress v0.0.1 // indirect
	github.com/dustin/go-humanize v1.0.1 // indirect
	github.com/friendsofgo/errors v0.9.2 // indirect
	github.com/go-gorp/gorp/v3 v3.1.0 // indirect
	github.com/gofrs/uuid v4.4.0+incompatible // indirect
	github.com/google/uuid v1.6.0 // indirect
	github.com/klauspost/compress v1.17.9 // indirect
	github.com/klauspost/pgzip v1.2.6 // indirect
	github.com/mattetti/filebuffer v1.0.1 // indirect
	github.com/pierrec/lz4/v4 v4.1.21 // indirect
	github.com/pkg/errors v0.9.1 // indirect
	github.com/remyoudompheng/bigfft v0.0.0-20230129092748-24d4a6f8daec // indirect
	github.com/rubenv/sql-migrate v1.7.0 // indirect
	github.com/spf13/cast v1.6.0 // indirect
	github.com/volatiletech/inflect v0.0.1 // indirect
	github.com/volatiletech/null/v8 v8.1.2 // indirect
	github.com/volatiletech/randomize v0.0.1 // indirect
	github.com/volatiletech/sqlboiler/v4 v4.16.2 // indirect
	github.com/volatiletech/strmangle v0.0.6 // indirect
	golang.org/x/crypto v0.25.0 // indirect
	golang.org/x/sys v0.22.0 // indirect
	golang.org/x/text v0.16.0 // indirect
	modernc.org/libc v1.55.6 // indirect
	modernc.org/mathutil v1.6.0 // indirect
	modernc.org/memory v1.8.0 // indirect
)

replace github.com/pojntfx/stfs => /repo
