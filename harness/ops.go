package main

import (
	"io"
	"path/filepath"
	"errors"
	"fmt"
	"os"
	"path"
	"sort"
	"strings"
	"time"

	"github.com/pojntfx/stfs/pkg/config"
	"github.com/spf13/afero"
)

// Op is one call of a generated history (JSON-serialisable so that a failing history can be replayed).
type Op struct {
	K       string `json:"k"`
	A       string `json:"a,omitempty"`
	B       string `json:"b,omitempty"`
	Flag    int    `json:"flag,omitempty"`
	Perm    uint32 `json:"perm,omitempty"`
	Len     int    `json:"len,omitempty"`
	Dist    string `json:"dist,omitempty"`
	DSeed   uint64 `json:"dseed,omitempty"`
	NoWrite bool   `json:"nowrite,omitempty"`
	Uid     int    `json:"uid,omitempty"`
	Gid     int    `json:"gid,omitempty"`
	At      int64  `json:"at,omitempty"`
	Mt      int64  `json:"mt,omitempty"`
	N       int    `json:"n,omitempty"`
	Spell   int    `json:"spell,omitempty"` // how the paths are spelled towards the implementation (0 = clean absolute)
	Zone    int    `json:"zone,omitempty"`   // chtimes: the times are handed over in a fixed zone of this many seconds east of UTC that has no name (as time.Parse yields for "+02:00")
	SpellB  int    `json:"spellb,omitempty"` // rename: the destination's spelling, chosen independently (-1 = clean absolute)
	Far     int    `json:"far,omitempty"`    // chtimes: times further from 1970 than int64 nanoseconds reach (1 = year 2400/2300, 2 = 1648/1500, 3 = 3000/9999, 4 = year 1000/2)
	Brk     string `json:"brk,omitempty"`    // the operating system refuses the drive for the duration of this one call ("missing" | "isdir"); set by the history runner
	Members []Op   `json:"members,omitempty"`
}

// spelled returns the two paths as they are handed to the implementation.
func (o Op) spelled() (string, string) {
	sb := o.SpellB
	switch {
	case sb == 0:
		sb = o.Spell
	case sb < 0:
		sb = 0
	}
	return spell(o.A, o.Spell), spell(o.B, sb)
}

func (o Op) content() []byte { return genContent(o.Len, o.Dist, o.DSeed) }

func flagStr(f int) string {
	var s []string
	switch f & 3 {
	case os.O_RDONLY:
		s = append(s, "RDONLY")
	case os.O_WRONLY:
		s = append(s, "WRONLY")
	case os.O_RDWR:
		s = append(s, "RDWR")
	}
	for _, x := range []struct {
		b int
		n string
	}{{os.O_CREATE, "CREATE"}, {os.O_EXCL, "EXCL"}, {os.O_TRUNC, "TRUNC"}, {os.O_APPEND, "APPEND"}, {os.O_SYNC, "SYNC"}} {
		if f&x.b != 0 {
			s = append(s, x.n)
		}
	}
	return strings.Join(s, "|")
}

func (o Op) String() string {
	if o.Spell != 0 || o.SpellB != 0 {
		c := o
		c.A, c.B = o.spelled()
		c.Spell, c.SpellB = 0, 0
		return c.String() + fmt.Sprintf(" [spelling %d/%d of %q]", o.Spell, o.SpellB, o.A)
	}
	switch o.K {
	case "mkdir", "mkdirall":
		return fmt.Sprintf("%s(%q,%o)", o.K, o.A, o.Perm)
	case "create":
		return fmt.Sprintf("create(%q)+write(%d %s)+close nowrite=%v", o.A, o.Len, o.Dist, o.NoWrite)
	case "write":
		return fmt.Sprintf("openfile(%q,%s,%o)+write(%d %s)+close nowrite=%v", o.A, flagStr(o.Flag), o.Perm, o.Len, o.Dist, o.NoWrite)
	case "rename", "opmove", "symlink":
		return fmt.Sprintf("%s(%q,%q)", o.K, o.A, o.B)
	case "lateattr":
		return fmt.Sprintf("openfile(%q,%s)+chmod(%o)+chown(%d,%d)+write(%d)+close", o.A, flagStr(o.Flag), o.Perm, o.Uid, o.Gid, o.Len)
	case "chmod":
		return fmt.Sprintf("chmod(%q,%o)", o.A, o.Perm)
	case "chown":
		return fmt.Sprintf("chown(%q,%d,%d)", o.A, o.Uid, o.Gid)
	case "chtimes":
		if o.Far != 0 {
			return fmt.Sprintf("chtimes(%q,far times #%d)", o.A, o.Far)
		}
		return fmt.Sprintf("chtimes(%q,%d,%d)", o.A, o.At, o.Mt)
	case "list":
		return fmt.Sprintf("list(%q,%d)", o.A, o.N)
	case "archive":
		var ms []string
		for _, m := range o.Members {
			ms = append(ms, fmt.Sprintf("%s:%s:%d", m.K, m.A, m.Len))
		}
		return "archive[" + strings.Join(ms, ",") + "]"
	case "update":
		if len(o.Members) > 0 {
			ms := []string{fmt.Sprintf("file:%s:%d", o.A, o.Len)}
			for _, m := range o.Members {
				ms = append(ms, fmt.Sprintf("%s:%s:%d", m.K, m.A, m.Len))
			}
			return "update[" + strings.Join(ms, ",") + "]"
		}
		if o.Flag == 2 {
			return fmt.Sprintf("update(directory %q,%o)", o.A, o.Perm)
		}
		return fmt.Sprintf("update(%q,%d %s)", o.A, o.Len, o.Dist)
	default:
		return fmt.Sprintf("%s(%q)", o.K, o.A)
	}
}

// Outcome of executing an op against an implementation.
type Outcome struct {
	OK       bool     `json:"ok"`
	Err      string   `json:"err,omitempty"`
	NotExist bool     `json:"notexist,omitempty"`
	Phase    string   `json:"phase,omitempty"`
	Data     []byte   `json:"-"`
	Names    []string `json:"names,omitempty"`
	Info     *Entry   `json:"info,omitempty"`
}

func failOut(phase string, err error) Outcome {
	return Outcome{Err: err.Error(), NotExist: errors.Is(err, os.ErrNotExist), Phase: phase}
}

// execOp runs one op against an STFS instance (fs-level ops through the afero API, batched ops through Operations).
func execOp(rig *Rig, o Op) Outcome {
	stepBegin()
	f := rig.FS
	o.A, o.B = o.spelled()
	switch o.K {
	case "mkdir":
		if err := f.Mkdir(o.A, os.FileMode(o.Perm)); err != nil {
			return failOut("mkdir", err)
		}
	case "mkdirall":
		if err := f.MkdirAll(o.A, os.FileMode(o.Perm)); err != nil {
			return failOut("mkdirall", err)
		}
	case "create", "write":
		var h afero.File
		var err error
		if o.K == "create" {
			h, err = f.Create(o.A)
		} else {
			h, err = f.OpenFile(o.A, o.Flag, os.FileMode(o.Perm))
		}
		if err != nil {
			return failOut("open", err)
		}
		var werr error
		acc := o.Flag & 3
		if o.K == "create" {
			acc = os.O_RDWR
		}
		if !o.NoWrite && acc != os.O_RDONLY {
			var n int
			c := o.content()
			n, werr = h.Write(c)
			if werr == nil && n != len(c) {
				werr = fmt.Errorf("short write %d of %d", n, len(c))
			}
		}
		cerr := h.Close()
		if werr != nil {
			return failOut("write", werr)
		}
		if cerr != nil {
			return failOut("close", cerr)
		}
	case "latewrite":
		// a handle is opened and left idle; another handle rewrites the file and closes; then the first handle writes and closes
		h, err := f.OpenFile(o.A, o.Flag, os.FileMode(o.Perm))
		if err != nil {
			return failOut("open", err)
		}
		other := genContent(o.N, "text", o.DSeed^0x5151)
		if err := afero.WriteFile(f, o.A, other, 0o644); err != nil {
			_ = h.Close()
			return failOut("otherwrite", err)
		}
		c := o.content()
		n, werr := h.Write(c)
		if werr == nil && n != len(c) {
			werr = fmt.Errorf("short write %d of %d", n, len(c))
		}
		cerr := h.Close()
		if werr != nil {
			return failOut("write", werr)
		}
		if cerr != nil {
			return failOut("close", cerr)
		}
	case "lateattr":
		// a handle is opened; the mode (and, when Uid >= 0, the owner) of the entry is changed; then the handle writes and closes
		h, err := f.OpenFile(o.A, o.Flag, 0o644)
		if err != nil {
			return failOut("open", err)
		}
		if err := f.Chmod(o.A, os.FileMode(o.Perm)); err != nil {
			_ = h.Close()
			return failOut("chmod", err)
		}
		if o.Uid >= 0 {
			if err := f.Chown(o.A, o.Uid, o.Gid); err != nil {
				_ = h.Close()
				return failOut("chown", err)
			}
		}
		c := o.content()
		n, werr := h.Write(c)
		if werr == nil && n != len(c) {
			werr = fmt.Errorf("short write %d of %d", n, len(c))
		}
		cerr := h.Close()
		if werr != nil {
			return failOut("write", werr)
		}
		if cerr != nil {
			return failOut("close", cerr)
		}
	case "read":
		b, err := ReadAllFile(f, o.A)
		if err != nil {
			return failOut("read", err)
		}
		return Outcome{OK: true, Data: b}
	case "remove":
		if err := f.Remove(o.A); err != nil {
			return failOut("remove", err)
		}
	case "removeall":
		if err := f.RemoveAll(o.A); err != nil {
			return failOut("removeall", err)
		}
	case "rename":
		if err := f.Rename(o.A, o.B); err != nil {
			return failOut("rename", err)
		}
	case "chmod":
		if err := f.Chmod(o.A, os.FileMode(o.Perm)); err != nil {
			return failOut("chmod", err)
		}
	case "chown":
		if err := f.Chown(o.A, o.Uid, o.Gid); err != nil {
			return failOut("chown", err)
		}
	case "chtimes":
		at, mt := time.Unix(0, o.At), time.Unix(0, o.Mt)
		if o.Zone != 0 {
			z := time.FixedZone("", o.Zone)
			at, mt = at.In(z), mt.In(z)
		}
		if o.Far != 0 {
			mt = [...]time.Time{time.Date(2400, 6, 1, 12, 0, 0, 500000000, time.UTC), time.Date(1648, 10, 24, 0, 0, 0, 0, time.UTC), time.Date(3000, 1, 1, 0, 0, 0, 1, time.UTC), time.Date(1000, 2, 3, 4, 5, 6, 7, time.UTC)}[(o.Far-1)%4]
			at = [...]time.Time{time.Date(2300, 1, 1, 0, 0, 0, 0, time.UTC), time.Date(1500, 3, 4, 5, 6, 7, 8, time.UTC), time.Date(9999, 12, 31, 23, 59, 59, 0, time.UTC), time.Date(2, 1, 1, 0, 0, 0, 0, time.UTC)}[(o.Far-1)%4]
		}
		if o.N == -62135596800 { // witness: the zero time.Time (year 1), which nanoseconds since 1970 cannot express
			at, mt = time.Time{}, time.Time{}
		}
		if err := f.Chtimes(o.A, at, mt); err != nil {
			return failOut("chtimes", err)
		}
	case "stat":
		fi, err := f.Stat(o.A)
		if err != nil {
			return failOut("stat", err)
		}
		e := infoToEntry(fi)
		return Outcome{OK: true, Info: &e}
	case "list":
		h, err := f.Open(o.A)
		if err != nil {
			return failOut("open", err)
		}
		names, err := h.Readdirnames(o.N)
		h.Close()
		if err != nil {
			return failOut("readdir", err)
		}
		sort.Strings(names)
		return Outcome{OK: true, Names: names}
	case "hcreate":
		h, err := f.Create(o.A)
		if err != nil {
			return failOut("open", err)
		}
		rig.heldHandle = h
	case "hwrite":
		if rig.heldHandle == nil {
			return failOut("harness", errors.New("no handle"))
		}
		if _, err := rig.heldHandle.Write(o.content()); err != nil {
			return failOut("write", err)
		}
	case "hclose":
		if rig.heldHandle == nil {
			return failOut("harness", errors.New("no handle"))
		}
		err := rig.heldHandle.Close()
		rig.heldHandle = nil
		if err != nil {
			return failOut("close", err)
		}
	case "symlink":
		l, ok := f.(afero.Linker)
		if !ok {
			return failOut("symlink", errors.New("not a linker"))
		}
		if err := l.SymlinkIfPossible(o.A, o.B); err != nil {
			return failOut("symlink", err)
		}
	case "archive":
		mt := time.Unix(1600000000+int64(o.DSeed%100000), 0)
		if o.Mt != 0 {
			mt = time.Unix(o.Mt, 0)
		}
		var ms []config.FileConfig
		for _, m := range o.Members {
			if m.K == "dir" {
				ms = append(ms, dirMember(m.A, os.FileMode(m.Perm), mt))
			} else if m.K == "nofile" {
				m := m
				fc := fileMember(m.A, m.content(), os.FileMode(m.Perm), mt)
				fc.GetFile = func() (io.ReadSeekCloser, error) {
					return nil, &os.PathError{Op: "open", Path: m.A, Err: os.ErrPermission}
				}
				ms = append(ms, fc)
			} else {
				ms = append(ms, staleMember(m.A, m.content(), os.FileMode(m.Perm), mt, m.N))
			}
		}
		src := membersSrc(ms)
		if o.Flag == 1 {
			// while this call has the drive open for writing, something else appends to the tape (here: one end-of-archive marker,
			// which every reader skips): whatever is on the tape at any moment must never be overwritten
			inner, done := src, false
			src = func() (config.FileConfig, error) {
				if !done {
					done = true
					if f, err := os.OpenFile(rig.Drive, os.O_WRONLY|os.O_APPEND, 0); err == nil {
						_, _ = f.Write(make([]byte, 1024))
						_ = f.Close()
						rig.Intruded += 1024
					}
				}
				return inner()
			}
		}
		if _, err := rig.WOps.Archive(src, rig.Cfg.Level, false, false); err != nil {
			return failOut("archive", err)
		}
	case "update":
		mt := time.Unix(1600000000+int64(o.DSeed%100000), 0)
		if o.Mt != 0 {
			mt = time.Unix(o.Mt, 0)
		}
		ums := []config.FileConfig{staleMember(o.A, o.content(), os.FileMode(o.Perm), mt, o.N)}
		if o.Flag == 2 {
			ums = []config.FileConfig{dirMember(o.A, os.FileMode(o.Perm), mt)}
		}
		for _, m := range o.Members {
			m := m
			fc := fileMember(m.A, m.content(), os.FileMode(m.Perm), mt)
			if m.K == "nofile" {
				fc.GetFile = func() (io.ReadSeekCloser, error) {
					return nil, &os.PathError{Op: "open", Path: m.A, Err: os.ErrPermission}
				}
			}
			ums = append(ums, fc)
		}
		if _, err := rig.WOps.Update(membersSrc(ums), rig.Cfg.Level, true, false); err != nil {
			return failOut("update", err)
		}
	case "hseq":
		// one handle driven through every kind of call (C10: each of them has to return, whatever fails underneath)
		h, err := f.OpenFile(o.A, os.O_RDWR|o.Flag, 0o644)
		if err != nil {
			return failOut("open", err)
		}
		var firstErr error
		keep := func(err error) {
			if err != nil && firstErr == nil {
				firstErr = err
			}
		}
		_, err = io.ReadAll(h)
		keep(err)
		_, err = h.Seek(0, io.SeekStart)
		keep(err)
		_, err = h.Write(o.content())
		keep(err)
		keep(h.Sync())
		_, err = h.WriteAt([]byte("patched"), 3)
		keep(err)
		keep(h.Truncate(int64(o.Len/2 + 5)))
		_, err = h.Seek(-2, io.SeekEnd)
		keep(err)
		_, err = h.WriteString("tail")
		keep(err)
		_, err = h.Stat()
		keep(err)
		keep(h.Close())
		if firstErr != nil {
			return failOut("hseq", firstErr)
		}
	case "restore":
		// Operations.Restore of one entry (or subtree) into a scratch directory
		dst := filepath.Join(rig.Dir, "restored")
		_ = os.MkdirAll(dst, 0o777)
		if err := rig.ROps.Restore(
			func(path string, mode os.FileMode) (io.WriteCloser, error) {
				return os.OpenFile(filepath.Join(dst, filepath.Base(path)), os.O_WRONLY|os.O_CREATE|os.O_TRUNC, 0o666)
			},
			func(path string, mode os.FileMode) error { return nil },
			o.A, "", true,
		); err != nil {
			return failOut("restore", err)
		}
	case "opdelete":
		if err := rig.WOps.Delete(o.A); err != nil {
			return failOut("opdelete", err)
		}
	case "opmove":
		if err := rig.WOps.Move(o.A, o.B); err != nil {
			return failOut("opmove", err)
		}
	default:
		return failOut("harness", fmt.Errorf("unknown op %q", o.K))
	}
	return Outcome{OK: true}
}

// applyModel runs one op against the reference model and returns the reference outcome.
func applyModel(m *Model, o Op) (MOut, Outcome) {
	switch o.K {
	case "mkdir":
		return m.Mkdir(o.A, o.Perm), Outcome{}
	case "mkdirall":
		return m.MkdirAll(o.A, o.Perm), Outcome{}
	case "create", "write":
		flag, perm := o.Flag, o.Perm
		if o.K == "create" {
			if mo, pok := m.parentOK(o.A); !pok {
				return mo, Outcome{}
			}
			flag, perm = os.O_RDWR|os.O_CREATE|os.O_TRUNC, 0o666
		}
		mo, n := m.Open(o.A, flag, perm)
		if !mo.OK || mo.Amb {
			return mo, Outcome{}
		}
		if !o.NoWrite && flag&3 != os.O_RDONLY {
			h := NewMHandle(n, flag)
			if r := h.DoWrite(o.content()); !r.OK {
				return fail("write refused"), Outcome{}
			}
		}
		return ok(), Outcome{}
	case "latewrite":
		mo, n := m.Open(o.A, o.Flag, o.Perm)
		if !mo.OK || mo.Amb {
			return mo, Outcome{}
		}
		h := NewMHandle(n, o.Flag)
		if mo2, _ := m.Open(o.A, os.O_WRONLY|os.O_CREATE|os.O_TRUNC, 0o644); !mo2.OK {
			return mo2, Outcome{}
		}
		oh := NewMHandle(n, os.O_WRONLY)
		if r := oh.DoWrite(genContent(o.N, "text", o.DSeed^0x5151)); !r.OK {
			return fail("write refused"), Outcome{}
		}
		if r := h.DoWrite(o.content()); !r.OK {
			return fail("write refused"), Outcome{}
		}
		return ok(), Outcome{}
	case "lateattr":
		mo, n := m.Open(o.A, o.Flag, 0o644)
		if !mo.OK || mo.Amb {
			return mo, Outcome{}
		}
		h := NewMHandle(n, o.Flag)
		if mo2 := m.Chmod(o.A, o.Perm); !mo2.OK {
			return mo2, Outcome{}
		}
		if o.Uid >= 0 {
			if mo2 := m.Chown(o.A, o.Uid, o.Gid); !mo2.OK {
				return mo2, Outcome{}
			}
		}
		if r := h.DoWrite(o.content()); !r.OK {
			return fail("write refused"), Outcome{}
		}
		return ok(), Outcome{}
	case "hcreate":
		if mo, pok := m.parentOK(o.A); !pok {
			return mo, Outcome{}
		}
		mo, n := m.Open(o.A, os.O_RDWR|os.O_CREATE|os.O_TRUNC, 0o666)
		if !mo.OK {
			return mo, Outcome{}
		}
		m.held = NewMHandle(n, os.O_RDWR)
		n.OpenW = true
		return ok(), Outcome{}
	case "hwrite":
		if m.held == nil {
			return fail("no handle"), Outcome{}
		}
		m.held.DoWrite(o.content()) // POSIX: the handle refers to the file itself, wherever it has been renamed to (or unlinked)
		return ok(), Outcome{}
	case "hclose":
		if m.held == nil {
			return fail("no handle"), Outcome{}
		}
		m.held.N.OpenW = false
		m.held = nil
		return ok(), Outcome{}
	case "read":
		n, mo := m.lookup(o.A)
		if n == nil {
			return mo, Outcome{}
		}
		if n.Dir {
			return fail("is a directory"), Outcome{}
		}
		return ok(), Outcome{Data: n.Data}
	case "remove":
		return m.Remove(o.A), Outcome{}
	case "removeall":
		return m.RemoveAll(o.A), Outcome{}
	case "rename":
		return m.Rename(o.A, o.B), Outcome{}
	case "chmod":
		return m.Chmod(o.A, o.Perm), Outcome{}
	case "chown":
		return m.Chown(o.A, o.Uid, o.Gid), Outcome{}
	case "chtimes":
		return m.Chtimes(o.A, o.At, o.Mt), Outcome{}
	case "stat":
		n, mo := m.lookup(o.A)
		if n == nil {
			return mo, Outcome{}
		}
		e := Entry{Kind: "f", Size: int64(len(n.Data)), Perm: n.Perm}
		if n.Dir {
			e = Entry{Kind: "d", Perm: n.Perm}
		}
		return ok(), Outcome{Info: &e}
	case "list":
		n, mo := m.lookup(o.A)
		if n == nil {
			return mo, Outcome{}
		}
		if !n.Dir {
			return fail("not a directory"), Outcome{}
		}
		names := m.directChildren(o.A)
		sort.Strings(names)
		return ok(), Outcome{Names: names}
	case "archive":
		// members are written in order: a directory of the batch is the parent of later members
		made := map[string]bool{}
		for _, mem := range o.Members {
			if made[parentOf(mem.A)] {
				continue
			}
			if mo, pok := m.parentOK(mem.A); !pok {
				return mo, Outcome{}
			}
			if mem.K == "dir" {
				made[mem.A] = true
			}
		}
		for _, mem := range o.Members {
			if mem.K == "nofile" {
				return fail("a source of the batch cannot be opened"), Outcome{} // the members before it stay archived
			}
			if mem.K == "dir" {
				m.N[mem.A] = &MNode{Dir: true, Perm: mem.Perm & 0o777}
			} else {
				m.N[mem.A] = &MNode{Data: mem.content(), Perm: mem.Perm & 0o777}
			}
		}
		return ok(), Outcome{}
	case "update":
		n, mo := m.lookup(o.A)
		if n == nil {
			return mo, Outcome{}
		}
		if o.Flag == 2 && !n.Dir {
			return fail("not a directory"), Outcome{}
		}
		if o.Len > 0 {
			n.Data = o.content()
		}
		n.Perm = o.Perm & 0o777
		n.Adopted = false
		n.Mtime, n.Atime = 0, 0
		for _, mem := range o.Members {
			if mem.K == "nofile" {
				return fail("a source of the batch cannot be opened"), Outcome{} // the members before it stay updated
			}
			n2, mo2 := m.lookup(mem.A)
			if n2 == nil {
				return mo2, Outcome{}
			}
			n2.Data = mem.content()
			n2.Perm = mem.Perm & 0o777
			n2.Adopted = false
			n2.Mtime, n2.Atime = 0, 0
		}
		return ok(), Outcome{}
	case "opdelete":
		if _, ok2 := m.N[o.A]; !ok2 {
			return noent("missing"), Outcome{}
		}
		return m.RemoveAll(o.A), Outcome{}
	case "opmove":
		return m.Rename(o.A, o.B), Outcome{}
	}
	return fail("unknown op"), Outcome{}
}

func parentOf(p string) string { return path.Dir(p) }
