package main

import (
	"bytes"
	"encoding/json"
	"fmt"
	"io"
	"os"
	"sync"

	"github.com/spf13/afero"
)

// C11, shared read handle: several goroutines use ONE read-only handle. io.ReaderAt allows parallel ReadAt calls; Read / Seek /
// Stat / ReadAt on one handle each have to act as one step. Unique, position-dependent content makes every returned range
// attributable: a positioned read must return exactly the bytes at its offset, and the goroutine that reads sequentially must
// see the file in order (only its own calls move the cursor for good).
func rdShareRun(p concP, c Case, w *Worker) (res Result) {
	cfg := p.Cfg
	res.setAdd("configs", cfg.String())
	dir := w.NewDir("c11rd")
	rig, err := NewRig(dir, cfg)
	if err != nil {
		res.Verdict, res.Msg = "inconclusive", "rig: "+err.Error()
		return
	}
	defer rig.Close()
	if err := rig.Init(); err != nil {
		res.Verdict, res.Msg = "inconclusive", "init: "+err.Error()
		return
	}
	size := 200000 + int(c.Seed%100000)
	content := genContent(size, "random", c.Seed)
	if err := afero.WriteFile(rig.FS, "/shared.bin", content, 0o644); err != nil {
		res.Verdict, res.Msg = "inconclusive", "setup: "+err.Error()
		return
	}
	rig.LocksSettled()
	h, err := rig.FS.OpenFile("/shared.bin", os.O_RDONLY, 0)
	if err != nil {
		res.Verdict, res.Msg = "inconclusive", "open: "+err.Error()
		return
	}
	viol := func(sig, format string, a ...any) {
		res.violate("c11|shared-read-handle|"+sig, fmt.Sprintf("[%s clients=%d, one read-only handle on a %d-byte file] ", cfg, p.Clients, size)+fmt.Sprintf(format, a...))
	}
	var mu sync.Mutex
	var firstSig, firstMsg string
	fail := func(sig, format string, a ...any) {
		mu.Lock()
		if firstSig == "" {
			firstSig, firstMsg = sig, fmt.Sprintf(format, a...)
		}
		mu.Unlock()
	}
	var wg sync.WaitGroup
	start := make(chan struct{})
	var seq []byte // what the sequential reader collected
	for cl := 0; cl < p.Clients; cl++ {
		wg.Add(1)
		go func(cl int) {
			defer wg.Done()
			r := newRand(c.Seed ^ uint64(cl+1)*0x9e3779b97f4a7c15)
			<-start
			for k := 0; k < p.PerCl; k++ {
				switch {
				case cl == 0:
					// the only client whose calls move the cursor for good
					buf := make([]byte, 1+r.Intn(20000))
					n, err := h.Read(buf)
					if err != nil && err != io.EOF {
						fail("read-error", "Read(%d) by the sequential client: %v", len(buf), err)
						return
					}
					seq = append(seq, buf[:n]...)
					if pos, err := h.Seek(0, io.SeekCurrent); err != nil || pos != int64(len(seq)) {
						fail("cursor", "after the sequential client had read %d bytes in total, Seek(0, current) = %d, %v", len(seq), pos, err)
						return
					}
				case r.Intn(5) == 0:
					if fi, err := h.Stat(); err != nil || fi.Size() != int64(size) {
						fail("stat", "Stat on the shared handle: size %d, %v", sizeOfInfo(fi), err)
						return
					}
				default:
					off := r.Intn(size)
					buf := make([]byte, 1+r.Intn(30000))
					n, err := h.ReadAt(buf, int64(off))
					want := content[off:]
					if len(want) > len(buf) {
						want = want[:len(buf)]
					}
					if (err != nil && err != io.EOF) || n != len(want) || !bytes.Equal(buf[:n], want) {
						fail("readat", "ReadAt(%d, %d) returned %d bytes, err=%v; the file has %d bytes there (equal=%v)", len(buf), off, n, err, len(want), n == len(want) && bytes.Equal(buf[:n], want))
						return
					}
				}
			}
		}(cl)
	}
	close(start)
	wg.Wait()
	_ = h.Close()
	if held := rig.LocksSettled(); len(held) > 0 {
		viol("locks-held", "all clients returned and the handle is closed, but the instance still holds %v", held)
		return
	}
	if firstSig != "" {
		viol(firstSig, "%s", firstMsg)
		return
	}
	if !bytes.Equal(seq, content[:len(seq)]) {
		viol("sequence", "the bytes the sequential client read (%d) are not the beginning of the file: positioned reads of other clients moved its cursor", len(seq))
		return
	}
	res.count("shared_read_handle_histories", 1)
	res.count("shared_read_handle_calls", int64(p.Clients*p.PerCl))
	res.NonTrivial = true
	res.Key = c.ID
	pb, _ := json.Marshal(p)
	res.Sample = map[string]any{"cfg": cfg.String(), "params": json.RawMessage(pb), "sequential_bytes": len(seq)}
	return
}
