package main

import (
	"bytes"
	"encoding/base64"
	"encoding/hex"
	"encoding/json"
	"fmt"
	"os"
	"sort"
	"strings"
)

// C09: with encryption on, the tape reveals nothing but record sizes.

type markP struct {
	Cfg   Cfg `json:"cfg"`
	Steps int `json:"steps"`
}

func markCases(prop, tier string, seed uint64) []Case {
	r := newRand(subSeed(seed, prop, tier))
	n, steps := 480, 16
	if tier == "thorough" {
		n, steps = 6000, 30
	}
	comps := []string{"", "gzip", "parallelgzip", "lz4", "zstandard", "brotli", "bzip2", "parallelbzip2"}
	var cases []Case
	for i := 0; i < n; i++ {
		cfg := Cfg{Enc: []string{"age", "pgp"}[i%2], Comp: comps[(i/2)%len(comps)], Sig: []string{"", "minisign", "pgp"}[(i/16+i)%3], Level: []string{"fastest", "balanced", "smallest"}[i%3], RS: []int{1, 3, 20, 64}[r.Intn(4)], WC: []string{"file", "memory"}[r.Intn(2)]}
		if i%8 == 5 {
			// the drive is a tape (not a regular file): whole records are written, short sessions are padded
			cfg.TapeMode = true
			cfg.RS = []int{20, 128, 7}[r.Intn(3)]
			cfg.Sig = []string{"", "pgp"}[i%2] // minisign cannot sign streams on tapes
		}
		pb, _ := json.Marshal(markP{Cfg: cfg, Steps: steps/2 + r.Intn(steps/2+1)})
		cases = append(cases, Case{ID: fmt.Sprintf("c09-%04d", i), Seed: subSeed(seed, prop, tier, fmt.Sprint(i)), Kind: "random", P: pb})
	}
	return cases
}

// encodings under which a planted marker would still be recognisable
func markerForms(m []byte) map[string][]byte {
	out := map[string][]byte{"raw": m}
	out["hex"] = []byte(hex.EncodeToString(m))
	out["HEX"] = []byte(strings.ToUpper(hex.EncodeToString(m)))
	for shift := 0; shift < 3; shift++ {
		// base64 of the marker at each of the three byte alignments; the characters that depend on neighbouring bytes are cut off
		pre := bytes.Repeat([]byte{0}, shift)
		enc := base64.StdEncoding.EncodeToString(append(pre, m...))
		cutFront := 0
		if shift > 0 {
			cutFront = (shift*8 + 5) / 6
		}
		total := shift + len(m)
		full := total / 3 * 4 // characters that only depend on whole 3-byte groups
		if full-cutFront >= 12 {
			out[fmt.Sprintf("base64+%d", shift)] = []byte(enc[cutFront:full])
		}
	}
	return out
}

func markRun(prop, tier string, c Case, w *Worker) Result { return markRunInner(c, w, false) }

// markRunInner runs the C09 workload; with collect set (oracle self-test on unencrypted tapes) it gathers every needle class
// that is found instead of stopping at the first one.
func markRunInner(c Case, w *Worker, collect bool) (res Result) {
	var p markP
	_ = json.Unmarshal(c.P, &p)
	cfg := p.Cfg
	res.setAdd("configs", cfg.String())
	dir := w.NewDir("c09")
	rig, err := NewRig(dir, cfg)
	if err != nil {
		res.Verdict, res.Msg = "inconclusive", "rig: "+err.Error()
		return
	}
	defer rig.Close()
	cfg = rig.Cfg
	r := newRand(c.Seed)
	mk := func(tag string) string {
		b := make([]byte, 9)
		r.Read(b)
		return tag + hex.EncodeToString(b) // 2 + 18 characters
	}
	nameMarks := []string{mk("nA"), mk("nB"), mk("nC"), mk("nD")}
	if c.Seed%3 == 0 {
		nameMarks = append(nameMarks, mk("nE")+"\xe9\xff") // a name that is not valid UTF-8 (legacy encodings)
	}
	contentMark := mk("cM") + mk("cN")
	const uidM, gidM = 1234567, 1765432
	const atM, mtM = int64(1234567890), int64(1198765432)
	var ops []string
	res.Detail = map[string]any{"cfg": cfg, "ops": &ops}
	viol := func(sig, format string, a ...any) {
		res.violate("c09|"+sig, fmt.Sprintf("[%s] after %d calls (last: %s): ", cfg, len(ops), lastOf(ops))+fmt.Sprintf(format, a...))
	}
	if err := rig.Init(); err != nil {
		if cfg.TapeMode && expectUnsupported(cfg) && isUnsupportedErr(err) {
			res.count("tape_mode_configs_rejected_as_unsupported", 1)
			res.NonTrivial = true
			res.Key = c.ID
			res.Detail = nil
			return
		}
		viol("init", "Initialize: %v", err)
		return
	}
	if cfg.TapeMode {
		res.count("tape_mode_histories", 1)
	}
	type needle struct {
		what string
		b    []byte
	}
	var needles []needle
	for _, m := range append(append([]string{}, nameMarks...), contentMark) {
		for form, b := range markerForms([]byte(m)) {
			needles = append(needles, needle{"marker " + m[:2] + " (" + form + ")", b})
		}
	}
	for _, s := range []string{
		fmt.Sprintf(`"Uid":%d`, uidM), fmt.Sprintf(`"Gid":%d`, gidM), fmt.Sprintf("uid=%d", uidM), fmt.Sprintf("gid=%d", gidM),
		fmt.Sprintf("%07o\x00", uidM), fmt.Sprintf("%07o\x00", gidM),
		fmt.Sprintf("mtime=%d", mtM), fmt.Sprintf("atime=%d", atM), fmt.Sprintf("%011o\x00", mtM), "2007-12-27T", "2009-02-13T",
		"STFS.Action", "STFS.Version", "STFS.ReplacesName", "STFS.ReplacesContent", "STFS.UncompressedSize", "STFS.Signature", `"Typeflag"`, `"Linkname"`, `"PAXRecords"`,
	} {
		needles = append(needles, needle{"clear-text metadata " + strings.TrimRight(s, "\x00"), []byte(s)})
	}
	maxLen := 3000
	if c.Seed%6 == 0 {
		maxLen = 300000 // content beyond the first chunk / window of the codecs
	}
	gen := NewGen(r, GenOpts{Cfg: cfg, Comps: nameMarks, Symlinks: true, Batched: true, MaxLen: maxLen})
	tree, _ := WalkTree(rig.FS, false)
	scanned := 0
	lastFailed, cutShort := false, false
	checkTape := func() bool {
		img, err := os.ReadFile(rig.Drive)
		if err != nil {
			res.Verdict, res.Msg = "inconclusive", err.Error()
			return false
		}
		for _, nd := range needles {
			if i := bytes.Index(img, nd.b); i >= 0 {
				if collect {
					res.setAdd("leaks", strings.Fields(nd.what)[0])
					res.setAdd("leak_details", nd.what)
					continue
				}
				viol("leak|"+strings.Fields(nd.what)[0], "%s is readable on the tape at byte %d", nd.what, i)
				return false
			}
		}
		if collect {
			return true
		}
		recs, _, err := ScanTape(img, Cfg{}, nil) // outer headers only
		if err != nil {
			// the needle search above has seen every byte; the record-level comparisons need an iterable tape. That the tape stays
			// iterable is C05's and C10's subject (a call that fails half-way in tape mode - e.g. a codec that refuses the record
			// size at the first member with content - leaves a torn record behind): here the history just ends
			if lastFailed {
				res.count("histories_cut_by_a_torn_record_after_a_failed_call", 1)
				cutShort = true
				return false
			}
			res.Verdict, res.Msg = "inconclusive", fmt.Sprintf("tape is not iterable after a successful call: %v", err)
			return false
		}
		seenCT := map[string]int64{}
		seenBody := map[string]int64{}
		for _, rc := range recs {
			// the encrypted content of two records must not start alike either: every message has its own ephemeral share / session
			// key packet within its first bytes (a keyed or replayed random source would make them equal - and the content readable)
			if cfg.Enc != "" && rc.ContentLen >= 64 {
				n := rc.ContentLen
				if n > 160 {
					n = 160
				}
				body := string(img[rc.ContentOff : rc.ContentOff+n])
				if prev, dup := seenBody[body]; dup {
					viol("deterministic-ciphertext|content", "the encrypted contents of the records at byte %d and %d start with the same %d bytes", prev, rc.Off, n)
					return false
				}
				seenBody[body] = rc.Off
				res.count("encrypted_contents_compared", 1)
			}
			// equal plaintext headers must not give equal ciphertext (a fixed nonce / file key would reveal which records are equal)
			if ct := rc.Outer.PAXRecords["STFS.EmbeddedHeader"]; ct != "" {
				if prev, dup := seenCT[ct]; dup {
					viol("deterministic-ciphertext", "the encrypted headers of the records at byte %d and %d are identical", prev, rc.Off)
					return false
				}
				seenCT[ct] = rc.Off
			}
			h := rc.Outer
			var keys []string
			for k := range h.PAXRecords {
				keys = append(keys, k)
			}
			sort.Strings(keys)
			if h.Name != "" || h.Linkname != "" || h.Uname != "" || h.Gname != "" || h.Uid != 0 || h.Gid != 0 || h.Mode != 0 ||
				!(h.ModTime.IsZero() || h.ModTime.Unix() == 0) || !(h.Typeflag == '0' || h.Typeflag == 0) || h.Devmajor != 0 || h.Devminor != 0 ||
				len(keys) != 1 || keys[0] != "STFS.EmbeddedHeader" {
				viol("wrapper", "outer header of the record at byte %d is not the fixed wrapper: name=%q link=%q uid=%d gid=%d mode=%o mtime=%v type=%q pax-keys=%v", rc.Off, h.Name, h.Linkname, h.Uid, h.Gid, h.Mode, h.ModTime, h.Typeflag, keys)
				return false
			}
		}
		scanned = len(recs)
		res.count("tape_scans", 1)
		res.count("needles_searched", int64(len(needles)))
		return true
	}
	for i := 0; i < p.Steps; i++ {
		op := gen.Next(tree)
		switch op.K {
		case "chown":
			op.Uid, op.Gid = uidM, gidM
		case "chtimes":
			op.At, op.Mt = atM*1e9, mtM*1e9
		case "create", "write", "update":
			if op.Len >= len(contentMark) {
				op.Dist = "marker:" + contentMark
			}
		case "archive":
			for j := range op.Members {
				if op.Members[j].Len >= len(contentMark) {
					op.Members[j].Dist = "marker:" + contentMark
				}
			}
		}
		ops = append(ops, op.String())
		lastOut := execOp(rig, op)
		lastFailed = !lastOut.OK
		if !lastOut.OK {
			ops[len(ops)-1] += " -> " + lastOut.Err
		}
		res.count("calls", 1)
		if held := rig.LocksSettled(); len(held) > 0 {
			break
		}
		if !checkTape() {
			if cutShort {
				break
			}
			return
		}
		tree, err = WalkTree(rig.FS, false)
		if err != nil {
			break
		}
	}
	if collect {
		if len(res.Sets["leaks"]) > 0 {
			res.violate("c09|selftest-leaks", "needles found")
		}
		return
	}
	if cfg.TapeMode {
		// what a tape-mode writer produced cannot be read back through a regular file here: the wrong-key part is left to the other cases
		res.count("records_on_tape", int64(scanned))
		res.NonTrivial = scanned >= 3
		res.Key = sum([]byte(cfg.String() + strings.Join(ops, "\n")))
		res.Detail = nil
		res.Sample = map[string]any{"cfg": cfg.String(), "ops": ops, "records": scanned}
		return
	}
	// a different private key must neither rebuild the index nor restore anything
	rows, _ := DumpRows(rig.DB)
	rig.LocksSettled()
	if c.Seed%2 == 0 {
		// in every second case the key holder first rebuilds the index from the tape and reads files IN THIS PROCESS (a server that
		// serves several tenants, a tool that tries several identities): whatever a process has seen with the right key must not
		// help the next caller, who has another one
		od := w.NewDir("c09o")
		if err := CloneDir(dir, od, false); err == nil {
			if orig, err := NewRig(od, cfg); err == nil {
				if err := runIndex(orig, true); err != nil {
					viol("owner-rebuild", "the key holder's own rebuild of the tape fails: %v", err)
					orig.Close()
					return
				}
				n := 0
				for _, rw := range rows {
					if rw.Deleted == 1 || rw.Typeflag != '0' || n >= 4 {
						continue
					}
					n++
					if _, err := fetchBytes(orig, rw.Record, rw.Block); err != nil {
						viol("owner-fetch", "the key holder's own fetch at %d/%d fails: %v", rw.Record, rw.Block, err)
						orig.Close()
						return
					}
				}
				orig.Close()
				ops = append(ops, "rebuild + fetches by the key holder in the same process first")
				res.count("foreign_key_attempts_after_the_key_holder_used_the_process", 1)
			}
		}
	}
	fd := w.NewDir("c09f")
	if err := CloneDir(dir, fd, false); err == nil {
		fcfg := cfg
		fcfg.Foreign = true
		frig, err := NewRig(fd, fcfg)
		if err == nil {
			ops = append(ops, "rebuild with a different private key")
			if err := runIndex(frig, true); err == nil {
				viol("foreign-key|rebuild", "recovery.Index succeeded with a different private key")
				frig.Close()
				return
			}
			frows, _ := DumpRows(frig.DB)
			for _, fr := range frows {
				for _, m := range nameMarks {
					if strings.Contains(fr.Name, m) || strings.Contains(fr.Linkname, m) {
						viol("foreign-key|rows", "the index built with a different private key contains the name %q", fr.Name)
						frig.Close()
						return
					}
				}
			}
			n := 0
			for _, rw := range rows {
				if rw.Deleted == 1 || rw.Typeflag != '0' || n >= 4 {
					continue
				}
				n++
				ops = append(ops, fmt.Sprintf("fetch %d/%d with a different private key", rw.Record, rw.Block))
				if b, err := fetchBytes(frig, rw.Record, rw.Block); err == nil {
					viol("foreign-key|fetch", "recovery.Fetch at %d/%d succeeded with a different private key (%d bytes)", rw.Record, rw.Block, len(b))
					frig.Close()
					return
				}
				res.count("foreign_key_fetches_rejected", 1)
			}
			frig.Close()
			res.count("foreign_key_rebuilds_rejected", 1)
		}
	}
	// the documented open sequence with a different private key must not show any name either
	fd2 := w.NewDir("c09g")
	if err := CloneDir(dir, fd2, false); err == nil {
		fcfg := cfg
		fcfg.Foreign = true
		if frig, err := NewRig(fd2, fcfg); err == nil {
			ops = append(ops, "Initialize + walk with a different private key")
			if err := frig.Init(); err == nil {
				if t, err := WalkTree(frig.FS, false); err == nil {
					for pth := range t {
						for _, m := range nameMarks {
							if strings.Contains(pth, m) {
								viol("foreign-key|open", "a filesystem opened with a different private key lists %q", pth)
								frig.Close()
								return
							}
						}
					}
				}
			}
			frig.LocksSettled()
			frig.Close()
			res.count("foreign_key_opens_checked", 1)
		}
	}
	res.count("records_on_tape", int64(scanned))
	res.NonTrivial = scanned >= 5
	res.Key = sum([]byte(cfg.String() + strings.Join(ops, "\n")))
	res.Detail = nil
	res.Sample = map[string]any{"cfg": cfg.String(), "ops": ops, "records": scanned}
	return
}

func init() {
	register(&Engine{Name: "markers", Props: []string{"C09"}, Cases: markCases, Run: markRun})
	propMeta["C09"] = PropMeta{Level: "exploration",
		Rule:        "per case one generated history (files, directories, symlinks, chmod/chown/chtimes, renames, removes, batched archive/update/delete/move) under {age,pgp} x 8 compression formats x {none,minisign,pgp} (an eighth of the cases with a tape-mode writer: whole records, padded sessions) whose names are 20-character random markers, whose contents embed a 40-character marker and whose owners/timestamps are marker numbers; after every call the raw drive file is searched for every marker (raw, hex, base64 at 3 alignments), for clear-text forms of the owner/timestamp values and for STFS.* keys and embedded-header field names, and every outer tar header found by an independent scan must be the fixed wrapper (all fields empty/zero, single PAX key STFS.EmbeddedHeader); at the end recovery.Index and recovery.Fetch with an unrelated key pair must fail; non-trivial = at least 5 records on the tape; distinct = distinct (configuration, call list); the first 160 bytes of every pair of encrypted content records must differ; in every second case the key holder first rebuilds the index and fetches files in the same process, and only then the other private key is tried (what a process has seen with the right key must not help a caller with another one)",
		Assumptions: []string{"markers are long enough that a chance occurrence in ciphertext has probability < 2^-60 per tape", "record lengths are allowed to be visible; cryptographic strength is not judged"}}
}
