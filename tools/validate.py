#!/usr/bin/env python3
import json,sys,glob,jsonschema
m=json.load(open('/verif/MANIFEST.json'))
jsonschema.validate(m,json.load(open('/root/.vp/MANIFEST.schema.json')))
es=json.load(open('/root/.vp/EVIDENCE.schema.json'))
props=[json.loads(l)['id'] for l in open('/verif/properties.jsonl')]
claimed=[c['property_id'] for c in m['checks']]
na=[c['property_id'] for c in m.get('not_applicable',[])]
assert sorted(claimed+na)==sorted(props),(set(props)-set(claimed+na), set(claimed)&set(na))
for c in m['checks']:
    f=c['evidence_file']
    try:
        e=json.load(open(f))
        jsonschema.validate(e,es)
        assert e['level']==c['level_claimed']['category'],(f,e['level'])
        print('ok',f,e['tier'],e['coverage'].get('evaluations'),e['coverage'].get('distinct_nontrivial'))
    except Exception as ex:
        print('BAD',f,str(ex)[:300])
print('manifest ok; claimed',len(claimed),'n/a',len(na))
