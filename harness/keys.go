package main

import (
	"crypto/rand"
	"fmt"
	"sync"

	"aead.dev/minisign"
	"github.com/ProtonMail/gopenpgp/v2/armor"
	"github.com/ProtonMail/gopenpgp/v2/crypto"
	"github.com/ProtonMail/gopenpgp/v2/helper"
	"github.com/pojntfx/stfs/pkg/config"
	"github.com/pojntfx/stfs/pkg/keys"
	"github.com/pojntfx/stfs/pkg/utility"
)

// KeySet holds parsed key material for one "owner". Two owners exist per process: "own" and "foreign".
type KeySet struct {
	mu   sync.Mutex
	rsa  bool // OpenPGP keys are RSA-2048 (what gpg made by default for many years) instead of the x25519 keys of `stfs keygen`
	encR map[string]interface{} // encryption recipient (public)
	encI map[string]interface{} // encryption identity (private)
	sigR map[string]interface{} // signature recipient (public)
	sigI map[string]interface{} // signature identity (private)
}

func NewKeySet() *KeySet {
	return &KeySet{encR: map[string]interface{}{}, encI: map[string]interface{}{}, sigR: map[string]interface{}{}, sigI: map[string]interface{}{}}
}

const rigPassword = "rig-password" // pgp keys generated with an empty password need the F14 repair; rigs stay independent of it

func (k *KeySet) ensureEnc(format string) error {
	if format == "" {
		return nil
	}
	if _, ok := k.encR[format]; ok {
		return nil
	}
	pw := rigPassword
	if format == config.EncryptionFormatAgeKey {
		pw = "" // age + password goes through scrypt (seconds); C18 covers that path on purpose
	}
	priv, pub, err := utility.Keygen(config.PipeConfig{Encryption: format}, config.PasswordConfig{Password: pw})
	if k.rsa && format == config.EncryptionFormatPGPKey {
		priv, pub, err = rsaKeyPair(pw)
	}
	if err != nil {
		return fmt.Errorf("keygen enc %s: %w", format, err)
	}
	r, err := keys.ParseRecipient(format, pub)
	if err != nil {
		return fmt.Errorf("parse recipient %s: %w", format, err)
	}
	i, err := keys.ParseIdentity(format, priv, pw)
	if err != nil {
		return fmt.Errorf("parse identity %s: %w", format, err)
	}
	k.encR[format], k.encI[format] = r, i
	return nil
}

func (k *KeySet) ensureSig(format string) error {
	if format == "" {
		return nil
	}
	if _, ok := k.sigR[format]; ok {
		return nil
	}
	switch format {
	case config.SignatureFormatMinisignKey:
		pub, priv, err := minisign.GenerateKey(rand.Reader) // direct: EncryptKey/DecryptKey cost 6-11 s of scrypt each
		if err != nil {
			return err
		}
		k.sigR[format], k.sigI[format] = pub, priv
	default:
		priv, pub, err := utility.Keygen(config.PipeConfig{Signature: format}, config.PasswordConfig{Password: rigPassword})
		if err != nil {
			return fmt.Errorf("keygen sig %s: %w", format, err)
		}
		r, err := keys.ParseSignerRecipient(format, pub)
		if err != nil {
			return err
		}
		i, err := keys.ParseSignerIdentity(format, priv, rigPassword)
		if err != nil {
			return err
		}
		k.sigR[format], k.sigI[format] = r, i
	}
	return nil
}

// Crypto returns the read-side and write-side crypto configs exactly as cmd/stfs composes them.
func (k *KeySet) Crypto(enc, sig string) (read config.CryptoConfig, write config.CryptoConfig, err error) {
	k.mu.Lock()
	defer k.mu.Unlock()
	if err = k.ensureEnc(enc); err != nil {
		return
	}
	if err = k.ensureSig(sig); err != nil {
		return
	}
	read = config.CryptoConfig{Recipient: k.sigR[sig], Identity: k.encI[enc]}
	write = config.CryptoConfig{Recipient: k.encR[enc], Identity: k.sigI[sig]}
	return
}

var ownKeys = NewKeySet()
var foreignKeys = NewKeySet()
var rsaKeys = &KeySet{rsa: true, encR: map[string]interface{}{}, encI: map[string]interface{}{}, sigR: map[string]interface{}{}, sigI: map[string]interface{}{}}

// rsaKeyPair makes an OpenPGP key with an RSA encryption subkey, in the form utility.Keygen returns (binary private key, binary public key).
func rsaKeyPair(pw string) (priv, pub []byte, err error) {
	armored, err := helper.GenerateKey("STFS", "stfs@example.com", []byte(pw), "rsa", 2048)
	if err != nil {
		return nil, nil, err
	}
	raw, err := armor.Unarmor(armored)
	if err != nil {
		return nil, nil, err
	}
	k, err := crypto.NewKey(raw)
	if err != nil {
		return nil, nil, err
	}
	if pub, err = k.GetPublicKey(); err != nil {
		return nil, nil, err
	}
	priv, err = k.Serialize()
	return priv, pub, err
}
