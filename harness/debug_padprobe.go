package main

import (
	"fmt"
	"os"
)

// padprobe: for each count of zero blocks after a foreign archive, does a file added through the filesystem survive a rebuild?
func padprobe() {
	scratch, _ := os.MkdirTemp("", "verif-padprobe-")
	defer os.RemoveAll(scratch)
	w := &Worker{Scratch: scratch}
	for pad := 0; pad <= 24; pad++ {
		for _, name := range []string{"/new", "/nä"} {
			p := forP{Format: "gnu", Root: "/", RS: 20, Pad: pad}
			ents := map[string]*fEnt{"/m": {Data: genContent(700, "text", 1), Mode: 0o644}}
			img, _ := writeForeignTar(p, ents, []string{"/m"})
			dir := w.NewDir("pp")
			_ = os.MkdirAll(tapeDir(dir), 0o777)
			_ = os.WriteFile(tapeDir(dir)+"/drive.tar", img, 0o666)
			cfg := Cfg{Level: "fastest", RS: 20, WC: "file"}
			rig, _ := NewRig(dir, cfg)
			res := ""
			if err := rig.Init(); err != nil {
				res = "init:" + err.Error()
			} else {
				h, err := rig.FS.Create(name)
				if err != nil {
					res = "create:" + err.Error()
				} else {
					h.Write([]byte("hello"))
					if err := h.Close(); err != nil {
						res = "close:" + err.Error()
					}
				}
				lt, _ := WalkTree(rig.FS, true)
				rig.LocksSettled()
				rt, err := walkVia(w, cfg, dir, false, "ppr")
				res += fmt.Sprintf(" live=%v rebuilt=%v rebuildErr=%v", sortedKeys(lt), sortedKeys(rt), err)
			}
			rig.Close()
			fmt.Printf("zero blocks after last member=%2d name=%s: %s\n", pad+2, name, res)
		}
	}
}
