package main

import (
	"io"
	"archive/tar"
	"bytes"
	"crypto/sha256"
	"encoding/hex"
	"encoding/json"
	"errors"
	"fmt"
	"os"
	"path"
	"path/filepath"
	"sort"
	"strings"
	"time"

	"github.com/pojntfx/stfs/pkg/config"
	"github.com/spf13/afero"
)

// C15: a read-only filesystem never changes the tape or the index.

type roP struct {
	Cfg     Cfg  `json:"cfg"`
	Pop     int  `json:"pop"`   // length of the populating history
	Calls   int  `json:"calls"` // calls against the read-only instance
	NoWBE   bool `json:"nowbe"`
	NoIndex bool `json:"noindex"` // open over the tape alone: building the missing index is the one permitted change
	Stale   bool `json:"stale"`   // the index exists but reflects only an earlier part of the tape (an older copy of the index): it must be left as it is
}

func roCases(prop, tier string, seed uint64) []Case {
	r := newRand(subSeed(seed, prop, tier))
	n, calls := 800, 40
	if tier == "thorough" {
		n, calls = 8000, 60
	}
	cfgs := someCfgs(r, 8)
	var cases []Case
	for i := 0; i < n; i++ {
		p := roP{Cfg: cfgs[i%len(cfgs)], Pop: 10 + r.Intn(14), Calls: calls/2 + r.Intn(calls/2+1), NoWBE: i%2 == 1, NoIndex: i%5 == 4, Stale: i%5 == 2}
		pb, _ := json.Marshal(p)
		cases = append(cases, Case{ID: fmt.Sprintf("c15-%04d", i), Seed: subSeed(seed, prop, tier, fmt.Sprint(i)), Kind: "random", P: pb})
	}
	return cases
}

func fileDigest(p string) string {
	b, err := os.ReadFile(p)
	if err != nil {
		return "!" + err.Error()
	}
	h := sha256.Sum256(b)
	return hex.EncodeToString(h[:10]) + fmt.Sprintf("/%d", len(b))
}

func roRun(prop, tier string, c Case, w *Worker) (res Result) {
	var p roP
	_ = json.Unmarshal(c.P, &p)
	cfg := p.Cfg
	res.setAdd("configs", cfg.String())
	// 0. a read-only instance over nothing at all must not create a tape
	if c.Seed%7 == 0 {
		for vi, pre := range [][]byte{nil, {}, make([]byte, 1024), []byte("this is not a tar archive, just some bytes that happen to be on the drive\n")} {
			ed := w.NewDir("c15empty")
			ecfg := cfg
			ecfg.ReadOnly, ecfg.NoWriteBE = true, p.NoWBE
			er, err := NewRig(ed, ecfg)
			if err != nil {
				continue
			}
			if pre != nil {
				_ = os.WriteFile(er.Drive, pre, 0o666)
			}
			before := fileDigest(er.Drive)
			ierr := er.Init()
			er.LocksSettled()
			after := fileDigest(er.Drive)
			rows, _ := DumpRows(er.DB)
			er.Close()
			what := []string{"a missing drive", "an empty drive file", "a zero-filled drive file", "a drive file holding no tar archive"}[vi]
			if before != after {
				res.violate("c15|blank-drive-changed", fmt.Sprintf("[%s] Initialize of a read-only filesystem over %s (err=%v) changed the drive: %s -> %s", ecfg, what, ierr, before, after))
				return
			}
			if ierr == nil || len(rows) > 0 {
				res.violate("c15|blank-drive-initialized", fmt.Sprintf("[%s] Initialize of a read-only filesystem over %s returned err=%v and left %d index rows", ecfg, what, ierr, len(rows)))
				return
			}
			res.count("blank_drive_opens_checked", 1)
		}
	}
	// 1. populate with a writable instance
	src := w.NewDir("c15src")
	wr, err := NewRig(src, cfg)
	if err != nil {
		res.Verdict, res.Msg = "inconclusive", "rig: "+err.Error()
		return
	}
	cfg = wr.Cfg
	if err := wr.Init(); err != nil {
		res.Verdict, res.Msg = "inconclusive", "populate init: "+err.Error()
		wr.Close()
		return
	}
	gen := NewGen(newRand(c.Seed), GenOpts{Cfg: cfg, MaxLen: 2000})
	tree, _ := WalkTree(wr.FS, false)
	var pop []string
	for i := 0; i < p.Pop; i++ {
		op := gen.Next(tree)
		pop = append(pop, op.String())
		_ = execOp(wr, op)
		wr.LocksSettled()
		tree, err = WalkTree(wr.FS, false)
		if err != nil {
			break
		}
	}
	wr.LocksSettled()
	wr.Close()
	// 1b. plain pipelines: the tape also carries members of the shape older versions wrote when a source grew or shrank while it
	// was archived - the recorded logical size (STFS.UncompressedSize) disagrees with the content that is on the tape. Reading
	// such a file through a read-only instance must not "repair" anything either
	if cfg.Comp == "" && cfg.Enc == "" && cfg.Sig == "" && c.Seed%3 != 2 && c.Seed%5 > 1 { // not behind the cache layer: afero refuses to cache a file whose size differs from what Stat said
		var buf bytes.Buffer
		tw := tar.NewWriter(&buf)
		for i, rec := range []string{"5", "20"} {
			body := []byte("hello world")
			_ = tw.WriteHeader(&tar.Header{Typeflag: tar.TypeReg, Name: fmt.Sprintf("/legacy-size-%d", i), Size: int64(len(body)), Mode: 0o644, ModTime: time.Unix(1600000000, 0), Format: tar.FormatPAX,
				PAXRecords: map[string]string{"STFS.Version": "1", "STFS.Action": "CREATE", "STFS.UncompressedSize": rec}})
			_, _ = tw.Write(body)
		}
		_ = tw.Close()
		if f, err := os.OpenFile(tapeDir(src)+"/drive.tar", os.O_WRONLY|os.O_APPEND, 0); err == nil {
			_, _ = f.Write(buf.Bytes())
			_ = f.Close()
			if lr, err := NewRig(src, cfg); err == nil {
				if ierr := runIndex(lr, true); ierr != nil {
					res.Verdict, res.Msg = "inconclusive", "indexing the tape with legacy-size members: "+ierr.Error()
					lr.Close()
					return
				}
				lr.Close()
				res.count("tapes_with_legacy_size_members", 1)
			}
		}
	}
	// 2. read-only instance and writable twin over copies of the same data
	rod, twd := w.NewDir("c15ro"), w.NewDir("c15tw")
	if err := CloneDir(src, rod, !p.NoIndex); err != nil {
		res.Verdict, res.Msg = "inconclusive", err.Error()
		return
	}
	if err := CloneDir(src, twd, !p.NoIndex); err != nil {
		res.Verdict, res.Msg = "inconclusive", err.Error()
		return
	}
	if p.Stale && !p.NoIndex {
		img, err := os.ReadFile(tapeDir(src) + "/drive.tar")
		if err == nil {
			if recs, _, err := ScanTape(img, cfg, &cryptoView{EncIdentity: wr.RC.Identity}); err == nil && len(recs) >= 4 {
				sd := w.NewDir("c15stale")
				_ = os.MkdirAll(tapeDir(sd), 0o777)
				if err := os.WriteFile(tapeDir(sd)+"/drive.tar", img[:recs[len(recs)/2].Off], 0o666); err == nil {
					if sr, err := NewRig(sd, cfg); err == nil {
						ierr := runIndex(sr, true)
						sr.Close()
						if ierr == nil {
							for _, d := range []string{rod, twd} {
								if err := copyFile(sd+"/index.sqlite", d+"/index.sqlite"); err != nil {
									res.Verdict, res.Msg = "inconclusive", err.Error()
									return
								}
							}
							res.count("stale_index_cases", 1)
						}
					}
				}
			}
		}
	}
	var rowsAtStart string
	if !p.NoIndex {
		if rows0, err := DumpRows(rod + "/index.sqlite"); err == nil {
			rowsAtStart = RowsDigest(rows0)
		}
	}
	rocfg := cfg
	rocfg.ReadOnly = true
	rocfg.NoWriteBE = p.NoWBE
	variant := "A(write backend present)"
	if p.NoWBE {
		variant = "B(no write backend)"
	}
	if p.NoIndex {
		variant += "+index-absent"
	} else if p.Stale {
		variant += "+index-older-than-tape"
	}
	res.setAdd("variants", variant)
	tapeBefore := fileDigest(tapeDir(rod) + "/drive.tar")
	ro, err := NewRig(rod, rocfg)
	if err != nil {
		res.Verdict, res.Msg = "inconclusive", "ro rig: "+err.Error()
		return
	}
	defer ro.Close()
	// some read-only instances are used through the documented caching composition (`stfs serve ftp --read-only -n memory|dir`):
	// a refused write must not leave anything in the cache that later reads would return instead of the tape's content.
	// The cache layer answers Stat from its own copies, so there only kind, size and content are compared with the twin
	cached := false
	switch c.Seed % 5 {
	case 0:
		ro.FSCache, cached = config.FileSystemCacheTypeMemory, true
	case 1:
		ro.FSCache, ro.FSCacheDir, cached = config.FileSystemCacheTypeDir, w.NewDir("c15cache")+"/filesystem", true
	}
	if cached {
		variant += "+" + ro.FSCache + "-cache-composition"
		res.count("instances_behind_the_cache_composition", 1)
	}
	plain := func(e Entry) Entry {
		if cached {
			e.Perm, e.Uid, e.Gid, e.Mtime, e.Atime = 0, 0, 0, 0, 0
		}
		return e
	}
	tw, err := NewRig(twd, cfg)
	if err != nil {
		res.Verdict, res.Msg = "inconclusive", "twin rig: "+err.Error()
		return
	}
	defer tw.Close()
	var calls []string
	res.Detail = map[string]any{"cfg": cfg, "variant": variant, "populate": pop, "calls": &calls}
	viol := func(sig, format string, a ...any) {
		res.violate("c15|"+sig, fmt.Sprintf("[%s %s] after %d calls, last %q: ", cfg, variant, len(calls), lastOf(calls))+fmt.Sprintf(format, a...))
	}
	calls = append(calls, "Initialize")
	if err := ro.Init(); err != nil {
		viol("init", "read-only Initialize over a populated tape failed: %v", err)
		return
	}
	if err := tw.Init(); err != nil {
		res.Verdict, res.Msg = "inconclusive", "twin init: "+err.Error()
		return
	}
	if d := fileDigest(ro.Drive); d != tapeBefore {
		viol("tape-changed|initialize", "Initialize changed the tape: %s -> %s", tapeBefore, d)
		return
	}
	rowsBefore, err := DumpRows(ro.DB)
	if err != nil {
		res.Verdict, res.Msg = "inconclusive", err.Error()
		return
	}
	rowsD := RowsDigest(rowsBefore)
	if rowsAtStart != "" && rowsD != rowsAtStart {
		viol("index-changed|initialize", "the index existed (and had a root) before the read-only instance was opened; Initialize changed its rows")
		return
	}
	// beyond the rows: the index file's bytes, the drive file's metadata and the set of files in the instance directory
	dbBytes := fileDigest(ro.DB)
	driveStat := statLine(ro.Drive)
	filesBefore := listFiles(rod)
	ttree, err := WalkTree(tw.FS, true)
	if err != nil {
		res.Verdict, res.Msg = "inconclusive", "twin walk: "+err.Error()
		return
	}
	tw.LocksSettled()
	r := newRand(c.Seed ^ 0xabcdef)
	comps := []string{"a", "ab", "a_", "n1", "ä"}
	existing := allOf(ttree)
	pickPath := func() string {
		if len(existing) > 0 && r.Intn(4) != 0 {
			return existing[r.Intn(len(existing))]
		}
		ds := dirsOf(ttree)
		return path.Join(ds[r.Intn(len(ds))], comps[r.Intn(len(comps))])
	}
	check := func(what string) bool {
		ro.LocksSettled()
		if d := fileDigest(ro.Drive); d != tapeBefore {
			viol("tape-changed|"+what, "the tape changed: %s -> %s", tapeBefore, d)
			return false
		}
		rows, err := DumpRows(ro.DB)
		if err != nil {
			res.Verdict, res.Msg = "inconclusive", err.Error()
			return false
		}
		if d := RowsDigest(rows); d != rowsD {
			viol("index-changed|"+what, "the index contents changed (%d rows before, %d after)", len(rowsBefore), len(rows))
			return false
		}
		if d := fileDigest(ro.DB); d != dbBytes {
			viol("index-file-changed|"+what, "the index database file changed although no row did: %s -> %s", dbBytes, d)
			return false
		}
		if d := statLine(ro.Drive); d != driveStat {
			viol("drive-metadata-changed|"+what, "the drive file's metadata changed: %s -> %s", driveStat, d)
			return false
		}
		if fl := listFiles(rod); fl != filesBefore {
			viol("files-created|"+what, "files appeared or disappeared next to the tape: before [%s] after [%s]", filesBefore, fl)
			return false
		}
		return true
	}
	mustPerm := func(what string, err error) bool {
		res.count("mutating_calls", 1)
		if err == nil {
			viol("mutator-succeeded|"+what, "%s succeeded on a read-only filesystem", what)
			return false
		}
		if !errors.Is(err, os.ErrPermission) && !cached { // behind the cache layer afero answers some calls itself (copying a directory into the cache: "is a directory")
			viol("mutator-errclass|"+what, "%s failed with %q, not with a permission error", what, err)
			return false
		}
		return true
	}
	kinds := map[string]bool{}
	var roLinks afero.Fs = ro.FS
	if cached {
		roLinks = ro.S // the cache layer has no link methods; they are called on the filesystem below it
	}
	for i := 0; i < p.Calls; i++ {
		pa := pickPath()
		shape := r.Intn(12)
		if cached && shape == 1 {
			// afero's cache layer itself mishandles a trailing slash (copyToLayer("/f/") creates a DIRECTORY /f in the cache before
			// it fails, and later answers from it): not the read-only filesystem's doing, left out behind the cache layer
			shape = 4
		}
		switch shape { // unusual argument shapes
		case 0:
			pa = "/"
		case 1:
			pa = pa + "/"
		case 2:
			pa = strings.TrimPrefix(pa, "/")
		case 3:
			pa = []string{"", " ", ".", "./"}[r.Intn(4)]
		}
		k := []string{"create", "mkdir", "mkdirall", "remove", "removeall", "rename", "chmod", "chown", "chtimes", "symlink", "openfile", "openfile", "openfile", "stat", "stat", "list", "read", "read", "lstat", "readlink", "hreads", "hreads"}[r.Intn(22)]
		kinds[k] = true
		var okc bool
		switch k {
		case "create":
			calls = append(calls, fmt.Sprintf("Create(%q)", pa))
			h, err := ro.FS.Create(pa)
			if err == nil {
				h.Close()
			}
			okc = mustPerm("Create", err)
		case "mkdir":
			calls = append(calls, fmt.Sprintf("Mkdir(%q)", pa))
			okc = mustPerm("Mkdir", ro.FS.Mkdir(pa, 0o755))
		case "mkdirall":
			calls = append(calls, fmt.Sprintf("MkdirAll(%q)", pa+"/x/y"))
			okc = mustPerm("MkdirAll", ro.FS.MkdirAll(pa+"/x/y", 0o755))
		case "remove":
			calls = append(calls, fmt.Sprintf("Remove(%q)", pa))
			okc = mustPerm("Remove", ro.FS.Remove(pa))
		case "removeall":
			calls = append(calls, fmt.Sprintf("RemoveAll(%q)", pa))
			okc = mustPerm("RemoveAll", ro.FS.RemoveAll(pa))
		case "rename":
			pb := pickPath()
			if r.Intn(6) == 0 {
				pb = ""
			}
			calls = append(calls, fmt.Sprintf("Rename(%q,%q)", pa, pb))
			okc = mustPerm("Rename", ro.FS.Rename(pa, pb))
		case "chmod":
			calls = append(calls, fmt.Sprintf("Chmod(%q)", pa))
			okc = mustPerm("Chmod", ro.FS.Chmod(pa, 0o600))
		case "chown":
			calls = append(calls, fmt.Sprintf("Chown(%q)", pa))
			okc = mustPerm("Chown", ro.FS.Chown(pa, 12, 34))
		case "chtimes":
			calls = append(calls, fmt.Sprintf("Chtimes(%q)", pa))
			okc = mustPerm("Chtimes", ro.FS.Chtimes(pa, time.Unix(1e9, 0), time.Unix(1e9, 0)))
		case "symlink":
			pb := pickPath()
			if r.Intn(6) == 0 {
				pb = ""
			}
			calls = append(calls, fmt.Sprintf("Symlink(%q,%q)", pa, pb))
			okc = mustPerm("Symlink", roLinks.(afero.Linker).SymlinkIfPossible(pa, pb))
		case "openfile":
			acc := []int{os.O_RDONLY, os.O_WRONLY, os.O_RDWR}[r.Intn(3)]
			fl := acc
			if r.Intn(3) != 0 { // a third of the handles come from a plain open of the chosen access mode
				for _, b := range []int{os.O_CREATE, os.O_EXCL, os.O_TRUNC, os.O_APPEND} {
					if r.Intn(3) == 0 {
						fl |= b
					}
				}
			}
			calls = append(calls, fmt.Sprintf("OpenFile(%q,%s)", pa, flagStr(fl)))
			res.count("openfile_calls", 1)
			h, err := ro.FS.OpenFile(pa, fl, 0o644)
			_, exists := ttree[cleanAbs(pa)]
			if cleanAbs(pa) == "/" {
				exists = true
			}
			if err == nil && !exists {
				viol("openfile-created", "OpenFile(%s) of a missing path succeeded on a read-only filesystem", flagStr(fl))
				h.Close()
				return
			}
			okc = true
			if err == nil {
				isDir := ttree[cleanAbs(pa)].Kind == "d" || cleanAbs(pa) == "/"
				// every write-ish call on a handle obtained from a read-only filesystem must fail with a permission error (or is-a-directory)
				for _, hk := range []string{"Write", "WriteAt", "WriteString", "Truncate"} {
					var e error
					switch hk {
					case "Write":
						_, e = h.Write([]byte("xyz"))
					case "WriteAt":
						_, e = h.WriteAt([]byte("xyz"), 1)
					case "WriteString":
						_, e = h.WriteString("xyz")
					case "Truncate":
						e = h.Truncate(1)
					}
					calls = append(calls, "handle."+hk)
					res.count("mutating_calls", 1)
					if e == nil {
						viol("handle-mutator-succeeded|"+hk, "%s on a handle from a read-only filesystem succeeded", hk)
						h.Close()
						return
					}
					if !errors.Is(e, os.ErrPermission) && !isDir && !cached {
						viol("handle-mutator-errclass|"+hk, "%s failed with %q, not with a permission error", hk, e)
						h.Close()
						return
					}
				}
				_ = h.Sync()
				if e := h.Close(); e != nil {
					viol("handle-close", "Close: %v", e)
					return
				}
			}
		case "stat":
			calls = append(calls, fmt.Sprintf("Stat(%q)", pa))
			a, ea := ro.FS.Stat(pa)
			b, eb := tw.FS.Stat(pa)
			okc = true
			if (ea == nil) != (eb == nil) {
				viol("read-differs|stat", "Stat: read-only err=%v, writable twin err=%v", ea, eb)
				return
			}
			if ea == nil && plain(infoToEntry(a)) != plain(infoToEntry(b)) {
				viol("read-differs|stat", "Stat: read-only %+v, writable twin %+v", infoToEntry(a), infoToEntry(b))
				return
			}
			res.count("read_calls", 1)
		case "list":
			calls = append(calls, fmt.Sprintf("Readdir(%q)", pa))
			la, ea := listNames(ro.FS, pa)
			lb, eb := listNames(tw.FS, pa)
			okc = true
			if (ea == nil) != (eb == nil) || strings.Join(la, "\x00") != strings.Join(lb, "\x00") {
				viol("read-differs|list", "listing: read-only %q (%v), writable twin %q (%v)", la, ea, lb, eb)
				return
			}
			res.count("read_calls", 1)
		case "read":
			calls = append(calls, fmt.Sprintf("ReadAll(%q)", pa))
			okc = true
			if ttree[cleanAbs(pa)].Kind == "d" || cleanAbs(pa) == "/" {
				break
			}
			a, ea := ReadAllFile(ro.FS, pa)
			b, eb := ReadAllFile(tw.FS, pa)
			ro.LocksSettled()
			tw.LocksSettled()
			if (ea == nil) != (eb == nil) || sum(a) != sum(b) {
				viol("read-differs|read", "content: read-only %d bytes (%v), writable twin %d bytes (%v)", len(a), ea, len(b), eb)
				return
			}
			res.count("read_calls", 1)
		case "hreads":
			// one handle driven through a sequence of read-side calls in any order (forwards, backwards, positioned), then closed:
			// every result equals the twin's, and - like after every call - tape and index rows are what they were
			okc = true
			if e := ttree[cleanAbs(pa)]; e.Kind != "f" || cached {
				break
			}
			size := ttree[cleanAbs(pa)].Size
			ha, ea := ro.FS.Open(pa)
			hb, eb := tw.FS.Open(pa)
			calls = append(calls, fmt.Sprintf("Open(%q)", pa))
			if (ea == nil) != (eb == nil) {
				viol("read-differs|open", "Open: read-only err=%v, writable twin err=%v", ea, eb)
				return
			}
			if ea != nil {
				break
			}
			offs := func() int64 { return []int64{0, 0, 1, size / 2, size - 1, size}[r.Intn(6)] }
			lens := func() int { return []int{1, 7, 512, int(size/2) + 1, int(size), int(size) + 5}[r.Intn(6)] }
			for j, nst := 0, 3+r.Intn(6); j < nst; j++ {
				var da, db string
				switch r.Intn(7) {
				case 0, 1:
					n := lens()
					ba, bb := make([]byte, n), make([]byte, n)
					na, e1 := ha.Read(ba)
					nb, e2 := hb.Read(bb)
					calls = append(calls, fmt.Sprintf("handle.Read(%d)", n))
					da, db = fmt.Sprintf("%d %s %v", na, sum(ba[:max(na, 0)]), e1), fmt.Sprintf("%d %s %v", nb, sum(bb[:max(nb, 0)]), e2)
				case 2, 3:
					o := offs()
					if o < 0 {
						o = 0
					}
					pa2, e1 := ha.Seek(o, io.SeekStart)
					pb2, e2 := hb.Seek(o, io.SeekStart)
					calls = append(calls, fmt.Sprintf("handle.Seek(%d,0)", o))
					da, db = fmt.Sprintf("%d %v", pa2, e1), fmt.Sprintf("%d %v", pb2, e2)
				case 4, 5:
					n, o := lens(), offs()
					if o < 0 {
						o = 0
					}
					ba, bb := make([]byte, n), make([]byte, n)
					na, e1 := ha.ReadAt(ba, o)
					nb, e2 := hb.ReadAt(bb, o)
					calls = append(calls, fmt.Sprintf("handle.ReadAt(%d,%d)", n, o))
					da, db = fmt.Sprintf("%d %s %v", na, sum(ba[:max(na, 0)]), e1), fmt.Sprintf("%d %s %v", nb, sum(bb[:max(nb, 0)]), e2)
				case 6:
					ia, e1 := ha.Stat()
					ib, e2 := hb.Stat()
					calls = append(calls, "handle.Stat")
					if e1 == nil && e2 == nil {
						da, db = fmt.Sprint(ia.Size()), fmt.Sprint(ib.Size())
					} else {
						da, db = fmt.Sprint(e1), fmt.Sprint(e2)
					}
				}
				if da != db {
					viol("read-differs|handle", "call %s on a handle of %q: read-only [%s], writable twin [%s]", calls[len(calls)-1], pa, da, db)
					ha.Close()
					hb.Close()
					return
				}
				res.count("handle_read_calls", 1)
			}
			if r.Intn(2) == 0 {
				_ = ha.Sync()
				_ = hb.Sync()
				calls = append(calls, "handle.Sync")
			}
			e1, e2 := ha.Close(), hb.Close()
			calls = append(calls, "handle.Close")
			ro.LocksSettled()
			tw.LocksSettled()
			if (e1 == nil) != (e2 == nil) {
				viol("read-differs|close", "Close of a read handle: read-only err=%v, writable twin err=%v", e1, e2)
				return
			}
			res.count("handle_read_sequences", 1)
		case "lstat":
			calls = append(calls, fmt.Sprintf("Lstat(%q)", pa))
			_, _, ea := roLinks.(afero.Lstater).LstatIfPossible(pa)
			_, _, eb := tw.FS.(afero.Lstater).LstatIfPossible(pa)
			okc = true
			if (ea == nil) != (eb == nil) {
				viol("read-differs|lstat", "Lstat: read-only err=%v, writable twin err=%v", ea, eb)
				return
			}
			res.count("read_calls", 1)
		case "readlink":
			calls = append(calls, fmt.Sprintf("Readlink(%q)", pa))
			a, ea := roLinks.(afero.LinkReader).ReadlinkIfPossible(pa)
			b, eb := tw.FS.(afero.LinkReader).ReadlinkIfPossible(pa)
			okc = true
			if (ea == nil) != (eb == nil) || a != b {
				viol("read-differs|readlink", "Readlink: read-only %q (%v), writable twin %q (%v)", a, ea, b, eb)
				return
			}
			res.count("read_calls", 1)
		}
		if !okc || res.Verdict != "" {
			return
		}
		if !check(k) {
			return
		}
		res.count("calls", 1)
	}
	// the whole tree as seen read-only equals the twin's
	rtree, err := WalkTree(ro.FS, true)
	if err != nil {
		viol("walk", "walking the read-only filesystem: %v", err)
		return
	}
	if cached {
		pt := Tree{}
		for k, v := range ttree {
			pt[k] = plain(v)
		}
		ttree = pt
		for k, v := range rtree {
			rtree[k] = plain(v)
		}
	}
	if ds := DiffTrees(rtree, ttree, "readonly", "twin", true); len(ds) > 0 {
		viol("read-differs|tree", "tree differs from the writable twin: %s", shortList(ds, 5))
		return
	}
	if !check("final-walk") {
		return
	}
	var ks []string
	for k := range kinds {
		ks = append(ks, k)
	}
	sort.Strings(ks)
	res.NonTrivial = len(ttree) >= 3 && res.Counters["mutating_calls"] >= 10
	res.Key = sum([]byte(cfg.String() + variant + strings.Join(calls, "\n")))
	res.Detail = nil
	res.Sample = map[string]any{"cfg": cfg.String(), "variant": variant, "entries": len(ttree), "calls": calls}
	return
}

func cleanAbs(p string) string { return path.Clean("/" + strings.TrimPrefix(p, "/")) }

func statLine(p string) string {
	st, err := os.Stat(p)
	if err != nil {
		return "!" + err.Error()
	}
	return fmt.Sprintf("%d/%v/%d", st.Size(), st.Mode(), st.ModTime().UnixNano())
}

func listFiles(dir string) string {
	var out []string
	_ = filepath.Walk(dir, func(p string, info os.FileInfo, err error) error {
		if err == nil {
			out = append(out, strings.TrimPrefix(p, dir))
		}
		return nil
	})
	sort.Strings(out)
	return strings.Join(out, " ")
}

func lastOf(s []string) string {
	if len(s) == 0 {
		return ""
	}
	return s[len(s)-1]
}

func listNames(f afero.Fs, p string) ([]string, error) {
	h, err := f.Open(p)
	if err != nil {
		return nil, err
	}
	defer h.Close()
	n, err := h.Readdirnames(-1)
	sort.Strings(n)
	return n, err
}

func init() {
	register(&Engine{Name: "readonly", Props: []string{"C15"}, Cases: roCases, Run: roRun})
	propMeta["C15"] = PropMeta{Level: "exploration",
		Rule:        "per case a tape+index is populated by a generated history through a writable instance; a read-only instance (variant A: write backend and cache factory present, variant B: none, as `serve http` composes it; every fifth case without an index so that it is built on open) and a writable twin are opened over copies; then 20-60 random calls mixing every mutating method, OpenFile with every flag combination followed by Write/WriteAt/WriteString/Truncate on the handle, and read calls; after every call sha-256(tape) and the full row dump are compared with their values after Initialize, mutators must fail with a permission error, read results must equal the twin's; non-trivial = at least 3 entries on the tape and at least 10 mutating calls; distinct = distinct (configuration, variant, call list); argument shapes include '', ' ', '.', './' as names (also as second argument of Rename / Symlink); a fifth of the cases open over an index that is OLDER than the tape (it reflects only the first half of the records): such an index must be left exactly as it is (rows compared from before the open); plain tapes carry two members whose recorded logical size disagrees with their content; two fifths of the read-only instances sit behind the memory / directory caching composition (there: every mutating call must fail, kind / size / content compared with the twin); 2 calls in 22 drive ONE read handle through 3-8 read-side calls in any order (Read, Seek from start, ReadAt, Stat; lengths and offsets around 0, the middle and the end of the file; forwards and backwards), optionally Sync, then Close - every result equals the same sequence on the twin's handle, and tape hash and index rows are compared afterwards like after every call",
		Assumptions: []string{"building a missing index during Initialize is the permitted change; the tape hash is pinned across it too", "OpenFile of a missing path must fail (any error class) and create nothing"}}
}
