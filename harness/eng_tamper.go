package main

import (
	"archive/tar"
	"bytes"
	"encoding/base64"
	"encoding/json"
	"fmt"
	"io"
	iofs "io/fs"
	"os"
	"sort"
	"strings"

	"aead.dev/minisign"
	"github.com/ProtonMail/go-crypto/openpgp"
	"github.com/ProtonMail/go-crypto/openpgp/packet"
	"github.com/pojntfx/stfs/pkg/config"
	"github.com/pojntfx/stfs/pkg/encryption"
	"github.com/pojntfx/stfs/pkg/recovery"
	"github.com/pojntfx/stfs/pkg/signature"
)

// C08: with signatures on, nothing unsigned or altered is ever accepted.

type tamperP struct {
	Cfg    Cfg    `json:"cfg"`
	Mode   string `json:"mode"` // flips | forgeries
	Masks  []int  `json:"masks,omitempty"`
	Stride int    `json:"stride,omitempty"`
	Shard  int    `json:"shard,omitempty"`
	Of     int    `json:"of,omitempty"`
}

func tamperCases(prop, tier string, seed uint64) []Case {
	var cases []Case
	cfgs := []Cfg{
		{Sig: "minisign", Level: "fastest", RS: 20, WC: "file"},
		{Sig: "pgp", Enc: "age", Comp: "gzip", Level: "fastest", RS: 3, WC: "file"},
	}
	shards := 8
	if tier == "thorough" {
		cfgs = append(cfgs,
			Cfg{Sig: "pgp", Level: "fastest", RS: 20, WC: "file"},
			Cfg{Sig: "minisign", Enc: "pgp", Level: "fastest", RS: 7, WC: "file"},
			Cfg{Sig: "pgp", Enc: "pgp", Comp: "zstandard", Level: "fastest", RS: 2, WC: "file"},
			Cfg{Sig: "minisign", Enc: "age", Comp: "lz4", Level: "fastest", RS: 1, WC: "file"},
			Cfg{Sig: "minisign", Comp: "bzip2", Level: "fastest", RS: 64, WC: "file"},
		)
		shards = 16
	}
	for ci, cfg := range cfgs {
		for s := 0; s < shards; s++ {
			p := tamperP{Cfg: cfg, Mode: "flips", Masks: []int{0x01, 0x80, 0xFF}, Stride: 1, Shard: s, Of: shards}
			if tier != "thorough" {
				// quick: every 3rd byte position (3 is coprime to the 512-byte block, so every header field offset is hit in some record), one mask per position
				p.Masks = []int{0x01, 0xFF}
				p.Stride = 3
			}
			pb, _ := json.Marshal(p)
			cases = append(cases, Case{ID: fmt.Sprintf("c08-flips-%d-%02d", ci, s), Seed: subSeed(seed, prop, "tape", fmt.Sprint(ci)), Kind: "flips", P: pb})
		}
	}
	for ci, cfg := range []Cfg{
		{Sig: "minisign", Level: "fastest", RS: 20, WC: "file"}, {Sig: "pgp", Level: "fastest", RS: 20, WC: "file"},
		{Sig: "minisign", Enc: "age", Level: "fastest", RS: 20, WC: "file"}, {Sig: "pgp", Enc: "age", Comp: "gzip", Level: "fastest", RS: 3, WC: "file"},
		{Sig: "pgp", Enc: "pgp", Level: "fastest", RS: 20, WC: "file"}, {Sig: "minisign", Enc: "pgp", Comp: "zstandard", Level: "fastest", RS: 2, WC: "file"},
	} {
		pb, _ := json.Marshal(tamperP{Cfg: cfg, Mode: "forgeries"})
		cases = append(cases, Case{ID: fmt.Sprintf("c08-forgeries-%d", ci), Seed: subSeed(seed, prop, "forge", fmt.Sprint(ci)), Kind: "forgeries", P: pb})
	}
	return cases
}

// hdrTuple is the canonical form under which an accepted header is compared with the signed ones (positions excluded).
func hdrTuple(h *config.Header) string {
	pax := map[string]string{}
	_ = json.Unmarshal([]byte(h.Paxrecords), &pax)
	var ks []string
	for k := range pax {
		ks = append(ks, k)
	}
	sort.Strings(ks)
	var ps []string
	for _, k := range ks {
		ps = append(ps, k+"="+pax[k])
	}
	return fmt.Sprintf("name=%q link=%q type=%d size=%d mode=%o uid=%d gid=%d uname=%q gname=%q mtime=%d pax=[%s]",
		h.Name, h.Linkname, h.Typeflag, h.Size, h.Mode, h.UID, h.Gid, h.Uname, h.Gname, h.Modtime.UnixNano(), strings.Join(ps, ";"))
}

// indexCollect runs the real indexer (real decrypt + verify callbacks) and collects every header it accepts.
func indexCollect(r *Rig) (accepted []string, err error) {
	stepBegin()
	rd, err := r.BE.GetReader()
	if err != nil {
		return nil, err
	}
	defer r.BE.CloseReader()
	err = recovery.Index(rd, r.BE.MagneticTapeIO, r.Meta, r.Pipes, r.RC, 0, 0, true, false, 0,
		func(hdr *tar.Header, i int) error {
			return encryption.DecryptHeader(hdr, r.Pipes.Encryption, r.RC.Identity)
		},
		func(hdr *tar.Header, isRegular bool) error {
			return signature.VerifyHeader(hdr, isRegular, r.Pipes.Signature, r.RC.Recipient)
		},
		func(h *config.Header) { accepted = append(accepted, hdrTuple(h)) })
	return
}

func queryCollect(r *Rig) (accepted []string, err error) {
	stepBegin()
	rd, err := r.BE.GetReader()
	if err != nil {
		return nil, err
	}
	defer r.BE.CloseReader()
	_, err = recovery.Query(rd, r.BE.MagneticTapeIO, r.Pipes, r.RC, 0, 0, func(h *config.Header) { accepted = append(accepted, hdrTuple(h)) })
	return
}

// fetchWithHeader restores the record at a position and reports the (verified) header recovery.Fetch used.
func fetchWithHeader(r *Rig, record, block int64) (data []byte, hdr *config.Header, err error) {
	stepBegin()
	rd, err := r.BE.GetReader()
	if err != nil {
		return nil, nil, err
	}
	defer r.BE.CloseReader()
	var out *bufCloser
	err = recovery.Fetch(rd, r.BE.MagneticTapeIO, r.Pipes, r.RC,
		func(path string, mode iofs.FileMode) (io.WriteCloser, error) {
			out = &bufCloser{}
			return out, nil
		},
		func(path string, mode iofs.FileMode) error { return nil },
		int(record), int(block), "x", false, func(h *config.Header) { hdr = h })
	if err != nil {
		return nil, hdr, err
	}
	if out == nil {
		return nil, hdr, nil // directory
	}
	return out.Bytes(), hdr, nil
}

type signedTape struct {
	cfg      Cfg
	img      []byte
	recs     []TapeRec
	signed   map[string]bool   // tuples of headers the legitimate writer signed, as the indexer reports them (codec suffix stripped, logical size)
	signedQ  map[string]bool   // the same as recovery.Query / recovery.Fetch report them (raw verified header)
	contents map[string][]byte // content signature (STFS.Signature of the inner header) -> signed plaintext
	byName   map[string][]byte
	dir      string
	names    map[string]bool // every path the writer ever signed (codec suffix stripped)
	sums     map[string]bool // sha of every content the writer ever signed
	sumsX    map[string]bool // the same contents with their first byte overwritten by 'x' (what a legitimate one-byte write at offset 0 makes of them)
	judged   int
	w        *Worker
}

// buildSignedTape writes a small history under cfg and captures what the legitimate writer signed.
func buildSignedTape(w *Worker, cfg Cfg, seed uint64) (*signedTape, error) {
	dir := w.NewDir("c08src")
	rig, err := NewRig(dir, cfg)
	if err != nil {
		return nil, err
	}
	defer rig.Close()
	if err := rig.Init(); err != nil {
		return nil, err
	}
	ops := []Op{
		{K: "mkdir", A: "/docs", Perm: 0o755},
		{K: "create", A: "/docs/secret.txt", Len: 700, Dist: "text", DSeed: seed},
		{K: "create", A: "/b.bin", Len: 513, Dist: "random", DSeed: seed + 1},
		{K: "chmod", A: "/b.bin", Perm: 0o600},
		{K: "create", A: "/empty"},
		{K: "rename", A: "/docs/secret.txt", B: "/docs/moved.txt"},
		{K: "create", A: "/gone", Len: 40, Dist: "text", DSeed: seed + 2},
		{K: "remove", A: "/gone"},
		{K: "symlink", A: "/b.bin", B: "/docs/link"},
	}
	ops[4].NoWrite = true
	for _, op := range ops {
		if out := execOp(rig, op); !out.OK {
			return nil, fmt.Errorf("building the signed tape: %s: %s", op, out.Err)
		}
	}
	rig.LocksSettled()
	st := &signedTape{cfg: rig.Cfg, dir: dir, signed: map[string]bool{}, signedQ: map[string]bool{}, contents: map[string][]byte{}, byName: map[string][]byte{}, names: map[string]bool{"/": true}, sums: map[string]bool{sum(nil): true}, w: w}
	st.img, err = os.ReadFile(rig.Drive)
	if err != nil {
		return nil, err
	}
	st.recs, _, err = ScanTape(st.img, rig.Cfg, &cryptoView{EncIdentity: rig.RC.Identity})
	if err != nil {
		return nil, err
	}
	acc, err := indexCollect(rig)
	if err != nil {
		return nil, fmt.Errorf("pristine tape does not index: %w", err)
	}
	for _, a := range acc {
		st.signed[a] = true
	}
	qacc, err := queryCollect(rig)
	if err != nil {
		return nil, fmt.Errorf("pristine tape cannot be queried: %w", err)
	}
	for _, a := range qacc {
		st.signedQ[a] = true
	}
	if len(acc) != len(st.recs) {
		return nil, fmt.Errorf("pristine tape: %d records scanned, %d headers accepted", len(st.recs), len(acc))
	}
	rs := int64(rig.Cfg.RS)
	for _, rc := range st.recs {
		blk := rc.Off / 512
		data, hdr, err := fetchWithHeader(rig, blk/rs, blk%rs)
		if err != nil {
			return nil, fmt.Errorf("pristine tape: fetch at %d: %w", rc.Off, err)
		}
		if hdr != nil && rc.Inner != nil && isRegular(rc.Inner) {
			st.contents[contentKey(hdr)] = data
			st.sums[sum(data)] = true
			if st.sumsX == nil {
				st.sumsX = map[string]bool{sum([]byte("x")): true}
			}
			wx := append([]byte("x"), data[min(1, len(data)):]...)
			st.sumsX[sum(wx)] = true
		}
		if rc.Inner != nil {
			st.names[normRowName(stripCodecSuffix(rc.Inner.Name, rig.Cfg))] = true
			st.names[normRowName(rc.Inner.Name)] = true
			if rc.Inner.Linkname != "" {
				st.names[normRowName(rc.Inner.Linkname)] = true
			}
		}
	}
	return st, nil
}

func contentKey(h *config.Header) string {
	pax := map[string]string{}
	_ = json.Unmarshal([]byte(h.Paxrecords), &pax)
	return pax["STFS.Signature"] + "|" + h.Name + "|" + fmt.Sprint(h.Size)
}

// judge runs index + query + fetch over a tampered image and applies C08's oracle.
func (st *signedTape) judge(rig *Rig, img []byte, what string, res *Result, kind string) bool {
	if err := os.WriteFile(rig.Drive, img, 0o666); err != nil {
		res.Verdict, res.Msg = "inconclusive", err.Error()
		return false
	}
	note("%s", what)
	acc, ierr := indexCollect(rig)
	for _, a := range acc {
		if !st.signed[a] {
			res.violate("c08|"+kind+"|index-accepted-unsigned", fmt.Sprintf("[%s] %s: the indexer accepted a header the writer never signed (index err=%v): %s", st.cfg, what, ierr, a))
			return false
		}
	}
	res.count("index_runs", 1)
	if ierr != nil {
		res.count("index_rejections", 1)
	}
	res.count("headers_accepted_all_signed", int64(len(acc)))
	qacc, qerr := queryCollect(rig)
	for _, a := range qacc {
		if !st.signedQ[a] {
			res.violate("c08|"+kind+"|query-accepted-unsigned", fmt.Sprintf("[%s] %s: recovery.Query accepted a header the writer never signed (err=%v): %s", st.cfg, what, qerr, a))
			return false
		}
	}
	// the documented open sequence over the tampered tape (fresh index): whatever it lists was signed, whatever it reads was signed
	st.judged++
	if strings.HasPrefix(what, "forgery") || st.judged%16 == 1 {
		fd := st.w.NewDir("c08fs")
		_ = os.MkdirAll(tapeDir(fd), 0o777)
		if err := os.WriteFile(tapeDir(fd)+"/drive.tar", img, 0o666); err == nil {
			if frig, err := NewRig(fd, st.cfg); err == nil {
				var dirsSeen, filesSeen []string
				if err := frig.Init(); err == nil {
					queue := []string{"/"}
					dirsSeen, filesSeen = nil, nil
					for len(queue) > 0 {
						d := queue[0]
						queue = queue[1:]
						dh, err := frig.FS.Open(d)
						if err != nil {
							continue
						}
						infos, _ := dh.Readdir(-1)
						dh.Close()
						for _, i := range infos {
							pth := normRowName(d + "/" + i.Name())
							known := st.names[pth]
							if !known {
								// when a (validly signed) record near the top is dropped by the alteration, stfs picks a deeper entry as root and
								// shows signed names relative to it; dropping signed records is outside C08, so a suffix of a signed name is fine
								for n := range st.names {
									if strings.HasSuffix(n, pth) {
										known = true
										break
									}
								}
							}
							if !known {
								res.violate("c08|"+kind+"|fs-lists-unsigned-name", fmt.Sprintf("[%s] %s: the filesystem opened over the altered tape lists %q, a name the writer never signed", st.cfg, what, pth))
								frig.Close()
								return false
							}
							if i.IsDir() {
								queue = append(queue, pth)
								dirsSeen = append(dirsSeen, pth)
								continue
							}
							filesSeen = append(filesSeen, pth)
							b, err := ReadAllFile(frig.FS, pth)
							frig.LocksSettled()
							if err == nil && !st.sums[sum(b)] {
								res.violate("c08|"+kind+"|fs-reads-unsigned-content", fmt.Sprintf("[%s] %s: reading %q through the filesystem succeeded with %d bytes (sum %s) that the writer never signed", st.cfg, what, pth, len(b), sum(b)))
								frig.Close()
								return false
							}
							res.count("fs_reads_over_tampered_tape", 1)
						}
					}
				}
				frig.LocksSettled()
				// a recursive restore of the whole tree (`stfs operation restore` of a directory): if it reports success, every
				// file it delivered holds signed bytes - the verdict on one member must not get lost among its siblings
				for _, from := range dirsSeen {
					type delivered struct {
						path string
						b    *bufCloser
					}
					var outs []delivered
					stepBegin()
					rerr := frig.ROps.Restore(
						func(path string, mode iofs.FileMode) (io.WriteCloser, error) {
							b := &bufCloser{}
							outs = append(outs, delivered{path, b})
							return b, nil
						},
						func(path string, mode iofs.FileMode) error { return nil },
						from, "/out", false,
					)
					frig.LocksSettled()
					res.count("recursive_restores_over_tampered_tape", 1)
					res.count("files_delivered_by_recursive_restores", int64(len(outs)))
					if rerr == nil {
						for _, dl := range outs {
							pth, b := dl.path, dl.b
							if !st.sums[sum(b.Bytes())] {
								res.violate("c08|"+kind+"|recursive-restore-unsigned-content", fmt.Sprintf("[%s] %s: Operations.Restore of the directory %q reported success and delivered %d bytes (sum %s) for %q that the writer never signed", st.cfg, what, from, len(b.Bytes()), sum(b.Bytes()), pth))
								frig.Close()
								return false
							}
						}
					} else {
						res.count("recursive_restores_rejected", 1)
					}
				}
				// the legitimate writer works on over the altered tape: a one-byte write into each file. Whatever can be read
				// afterwards is signed content, or signed content with that one byte - content that failed verification while it was
				// loaded for the write must not come back under the writer's own signature
				if strings.HasPrefix(what, "forgery") || st.judged%64 == 1 {
					for _, pth := range filesSeen {
						h, err := frig.FS.OpenFile(pth, os.O_RDWR, 0)
						if err != nil {
							continue
						}
						stepBegin()
						_, werr := h.Write([]byte("x"))
						cerr := h.Close()
						frig.LocksSettled()
						b, rerr := ReadAllFile(frig.FS, pth)
						frig.LocksSettled()
						res.count("writes_by_the_owner_over_tampered_tape", 1)
						if rerr == nil && !st.sums[sum(b)] && !st.sumsX[sum(b)] {
							res.violate("c08|"+kind+"|laundered-content", fmt.Sprintf("[%s] %s: after the key holder wrote one byte into %q (Write err=%v, Close err=%v) the file reads back %d bytes (sum %s) that are neither signed content nor signed content with that byte", st.cfg, what, pth, werr, cerr, len(b), sum(b)))
							frig.Close()
							return false
						}
					}
				}
				frig.Close()
			}
		}
		os.RemoveAll(fd)
	}
	// restore at every pristine record position and at every position the tampered index points to
	rs := int64(st.cfg.RS)
	pos := map[int64]bool{}
	for _, rc := range st.recs {
		pos[rc.Off/512] = true
	}
	if rows, err := DumpRows(rig.DB); err == nil {
		for _, rw := range rows {
			pos[rw.Record*rs+rw.Block] = true
		}
	}
	for blk := range pos {
		data, hdr, err := fetchWithHeader(rig, blk/rs, blk%rs)
		res.count("fetch_runs", 1)
		if err != nil {
			res.count("fetch_rejections", 1)
			continue
		}
		if hdr == nil {
			continue
		}
		if !st.signedQ[hdrTuple(hdr)] {
			res.violate("c08|"+kind+"|fetch-accepted-unsigned", fmt.Sprintf("[%s] %s: recovery.Fetch at block %d accepted a header the writer never signed: %s", st.cfg, what, blk, hdrTuple(hdr)))
			return false
		}
		if hdr.Typeflag != '0' && hdr.Typeflag != 0 {
			// links, directories: nothing was signed as their content, so nothing may be delivered for them
			if len(data) != 0 {
				res.violate("c08|"+kind+"|fetch-content-nonregular", fmt.Sprintf("[%s] %s: Fetch at block %d returned %d bytes for the signed %q record %q, which has no signed content", st.cfg, what, blk, len(data), string(rune(hdr.Typeflag)), hdr.Name))
				return false
			}
			continue
		}
		want, ok := st.contents[contentKey(hdr)]
		if !ok {
			// signed header that never carried content in the pristine tape (delete/move/metadata records): whatever is returned must be empty
			if len(data) != 0 && hdr.Size != 0 {
				res.violate("c08|"+kind+"|fetch-content-unknown", fmt.Sprintf("[%s] %s: Fetch at block %d returned %d bytes under a signed header that has no signed content", st.cfg, what, blk, len(data)))
				return false
			}
			continue
		}
		if !bytes.Equal(data, want) {
			res.violate("c08|"+kind+"|fetch-wrong-bytes", fmt.Sprintf("[%s] %s: Fetch at block %d returned success with %d bytes (sum %s) that differ from the %d bytes (sum %s) signed under header %q", st.cfg, what, blk, len(data), sum(data), len(want), sum(want), hdr.Name))
			return false
		}
		res.count("fetches_returning_signed_content", 1)
	}
	return true
}

// rewriteTape re-serialises records with archive/tar, letting modify edit / drop / add records. Outer headers are kept as they are.
func rewriteTape(img []byte, recs []TapeRec, modify func(i int, outer *tar.Header, content []byte) ([]*tar.Header, [][]byte)) []byte {
	var buf bytes.Buffer
	tw := tar.NewWriter(&buf)
	for i, rc := range recs {
		oh := *rc.Outer
		oh.PAXRecords = map[string]string{}
		for k, v := range rc.Outer.PAXRecords {
			oh.PAXRecords[k] = v
		}
		oh.Format = tar.FormatPAX
		content := img[rc.ContentOff : rc.ContentOff+rc.ContentLen]
		hs, cs := modify(i, &oh, content)
		for j, h := range hs {
			h.Size = int64(len(cs[j]))
			if err := tw.WriteHeader(h); err != nil {
				continue
			}
			_, _ = tw.Write(cs[j])
		}
	}
	_ = tw.Close()
	return buf.Bytes()
}

func tamperRun(prop, tier string, c Case, w *Worker) (res Result) {
	var p tamperP
	_ = json.Unmarshal(c.P, &p)
	res.setAdd("configs", p.Cfg.String())
	st, err := buildSignedTape(w, p.Cfg, c.Seed)
	if err != nil {
		res.Verdict, res.Msg = "inconclusive", err.Error()
		return
	}
	cfg := st.cfg
	d := w.NewDir("c08t")
	if err := CloneDir(st.dir, d, false); err != nil {
		res.Verdict, res.Msg = "inconclusive", err.Error()
		return
	}
	rig, err := NewRig(d, cfg)
	if err != nil {
		res.Verdict, res.Msg = "inconclusive", "rig: "+err.Error()
		return
	}
	defer rig.Close()
	res.Detail = map[string]any{"cfg": cfg, "records": func() (s []string) {
		for _, r := range st.recs {
			s = append(s, describeRec(r))
		}
		return
	}()}
	if !st.judge(rig, st.img, "pristine tape", &res, c.Kind) {
		return
	}
	switch p.Mode {
	case "flips":
		n := 0
		stride := p.Stride
		if stride < 1 {
			stride = 1
		}
		for idx, pos := p.Shard, p.Shard*stride; pos < len(st.img); idx, pos = idx+p.Of, pos+p.Of*stride {
			masks := p.Masks
			if stride > 1 {
				masks = []int{p.Masks[(idx/p.Of)%len(p.Masks)]}
			}
			for _, m := range masks {
				img := append([]byte(nil), st.img...)
				img[pos] ^= byte(m)
				if !st.judge(rig, img, fmt.Sprintf("byte %d of %d xor %#02x", pos, len(st.img), m), &res, c.Kind) {
					res.Detail.(map[string]any)["position"] = pos
					res.Detail.(map[string]any)["mask"] = m
					return
				}
				n++
			}
		}
		res.count("byte_alterations", int64(n))
		if stride == 1 {
			res.count("exhaustive_spaces", 1)
		}
		res.NonTrivial = n >= 100
		res.Key = c.ID
		res.Sample = map[string]any{"cfg": cfg.String(), "tape_bytes": len(st.img), "records": len(st.recs), "positions": fmt.Sprintf("%d, %d, ... (every %d-th)", p.Shard*stride, (p.Shard+p.Of)*stride, p.Of*stride), "masks": p.Masks, "alterations": n}
	case "forgeries":
		n := st.forgeries(w, rig, &res, c)
		res.NonTrivial = n >= 8 && res.Verdict == ""
		res.Key = c.ID
		res.Sample = map[string]any{"cfg": cfg.String(), "records": len(st.recs), "forgeries": n}
	}
	if res.Verdict == "" {
		res.Detail = nil
	}
	return
}

// wrap builds the outer header an attacker without the private keys can produce for a chosen inner header string.
func (st *signedTape) wrapOuter(embeddedJSON string, sig *string, rig *Rig) *tar.Header {
	// signature layer
	lay := &tar.Header{Format: tar.FormatPAX, PAXRecords: map[string]string{"STFS.EmbeddedHeader": embeddedJSON}}
	if sig != nil {
		lay.PAXRecords["STFS.Signature"] = *sig
	}
	if st.cfg.Enc == "" {
		return lay
	}
	// the recipient's public key is public: anybody can encrypt a header to it
	j, _ := json.Marshal(lay)
	ct, err := encryption.EncryptString(string(j), st.cfg.Enc, rig.WCr.Recipient)
	if err != nil {
		return lay
	}
	return &tar.Header{Format: tar.FormatPAX, PAXRecords: map[string]string{"STFS.EmbeddedHeader": ct}}
}

func (st *signedTape) forgeries(w *Worker, rig *Rig, res *Result, c Case) int {
	n := 0
	try := func(what string, img []byte) bool {
		n++
		res.count("forgeries", 1)
		return st.judge(rig, img, "forgery: "+what, res, c.Kind)
	}
	// the target: the first content-bearing record
	ti := -1
	for i, rc := range st.recs {
		if rc.Inner != nil && rc.Embedded != "" && strings.Contains(rc.Inner.Name, "secret") && rc.ContentLen > 0 {
			ti = i
			break
		}
	}
	if ti < 0 {
		res.Verdict, res.Msg = "inconclusive", "no target record"
		return 0
	}
	tgt := st.recs[ti]
	forgedEmb := strings.Replace(tgt.Embedded, "secret", "forged", 1)
	sigs := map[string]*string{}
	keep := tgt.SigRec
	sigs["kept signature"] = &keep
	sigs["removed signature"] = nil
	g1, g2, g3 := "!!not base64!!", base64.StdEncoding.EncodeToString([]byte("garbage that is no signature packet")), ""
	sigs["non-base64 signature"] = &g1
	sigs["base64 garbage signature"] = &g2
	sigs["empty signature"] = &g3
	if raw, err := base64.StdEncoding.DecodeString(tgt.SigRec); err == nil {
		re := base64.RawStdEncoding.EncodeToString(raw)
		sigs["re-encoded signature (no padding)"] = &re
		tr := base64.StdEncoding.EncodeToString(raw[:len(raw)/2])
		sigs["truncated signature"] = &tr
	}
	// another record's (valid) signature
	for i, rc := range st.recs {
		if i != ti && rc.SigRec != "" {
			o := rc.SigRec
			sigs["signature of another record"] = &o
			break
		}
	}
	var names []string
	for k := range sigs {
		names = append(names, k)
	}
	sort.Strings(names)
	for _, k := range names {
		// (1) in place: the target's header replaced by the forged one
		img := rewriteTape(st.img, st.recs, func(i int, outer *tar.Header, content []byte) ([]*tar.Header, [][]byte) {
			if i == ti {
				return []*tar.Header{st.wrapOuter(forgedEmb, sigs[k], rig)}, [][]byte{content}
			}
			return []*tar.Header{outer}, [][]byte{content}
		})
		if !try("edited embedded header in place, "+k, img) {
			return n
		}
		// (2) appended as an additional record
		var buf bytes.Buffer
		tw := tar.NewWriter(&buf)
		h := st.wrapOuter(forgedEmb, sigs[k], rig)
		content := st.img[tgt.ContentOff : tgt.ContentOff+tgt.ContentLen]
		h.Size = int64(len(content))
		_ = tw.WriteHeader(h)
		_, _ = tw.Write(content)
		_ = tw.Close()
		if !try("forged record appended, "+k, append(append([]byte(nil), st.img...), buf.Bytes()...)) {
			return n
		}
	}
	// swapped signatures between two records
	var si []int
	for i, rc := range st.recs {
		if rc.SigRec != "" && rc.Embedded != "" {
			si = append(si, i)
		}
	}
	if len(si) >= 2 {
		a, b := si[0], si[len(si)-1]
		img := rewriteTape(st.img, st.recs, func(i int, outer *tar.Header, content []byte) ([]*tar.Header, [][]byte) {
			if i == a {
				s := st.recs[b].SigRec
				return []*tar.Header{st.wrapOuter(st.recs[a].Embedded, &s, rig)}, [][]byte{content}
			}
			if i == b {
				s := st.recs[a].SigRec
				return []*tar.Header{st.wrapOuter(st.recs[b].Embedded, &s, rig)}, [][]byte{content}
			}
			return []*tar.Header{outer}, [][]byte{content}
		})
		if !try("signatures swapped between two records", img) {
			return n
		}
	}
	// content replaced, outer size recomputed (header signature stays valid, content signature must not)
	for _, variant := range []string{"same length", "longer", "empty"} {
		img := rewriteTape(st.img, st.recs, func(i int, outer *tar.Header, content []byte) ([]*tar.Header, [][]byte) {
			if i == ti {
				nc := append([]byte(nil), content...)
				switch variant {
				case "same length":
					nc[len(nc)/2] ^= 0x55
				case "longer":
					nc = append(nc, []byte("appended by the attacker")...)
				case "empty":
					nc = nil
				}
				return []*tar.Header{outer}, [][]byte{nc}
			}
			return []*tar.Header{outer}, [][]byte{content}
		})
		if !try("content replaced ("+variant+"), outer size recomputed", img) {
			return n
		}
	}
	// content of one signed record put under the header of another signed record
	for i, rc := range st.recs {
		if i != ti && rc.ContentLen > 0 {
			other := st.img[rc.ContentOff : rc.ContentOff+rc.ContentLen]
			img := rewriteTape(st.img, st.recs, func(j int, outer *tar.Header, content []byte) ([]*tar.Header, [][]byte) {
				if j == ti {
					return []*tar.Header{outer}, [][]byte{other}
				}
				return []*tar.Header{outer}, [][]byte{content}
			})
			if !try("content of another signed record under this header", img) {
				return n
			}
			break
		}
	}
	// records written by a second key pair (same formats), spliced in
	fcfg := st.cfg
	fcfg.Foreign = true
	fd := w.NewDir("c08f")
	if frig, err := NewRig(fd, fcfg); err == nil {
		if err := frig.Init(); err == nil {
			_ = execOp(frig, Op{K: "create", A: "/docs-by-other-key.txt", Len: 300, Dist: "text", DSeed: 77})
			_ = execOp(frig, Op{K: "mkdir", A: "/dir-by-other-key", Perm: 0o755})
			frig.LocksSettled()
			fimg, _ := os.ReadFile(frig.Drive)
			if !try("records signed by a second key pair appended", append(append([]byte(nil), st.img...), fimg...)) {
				frig.Close()
				return n
			}
			if !try("records signed by a second key pair prepended", append(append([]byte(nil), fimg...), st.img...)) {
				frig.Close()
				return n
			}
		}
		frig.Close()
	}
	// records signed by the attacker's own key whose signatures are relabelled to name one of the recipient's keys as issuer
	// (pgp: primary key and every subkey, by key id and fingerprint, and no issuer at all; minisign: the recipient's key id)
	for _, imp := range st.impersonations(rig) {
		emb, content, ok := st.forgeAs(tgt, imp)
		if !ok {
			continue
		}
		sig := imp.sign([]byte(emb))
		var buf bytes.Buffer
		tw := tar.NewWriter(&buf)
		h := st.wrapOuter(emb, &sig, rig)
		h.Size = int64(len(content))
		_ = tw.WriteHeader(h)
		_, _ = tw.Write(content)
		_ = tw.Close()
		res.count("impersonation_forgeries", 1)
		if !try("record signed by the attacker's key, issuer relabelled as "+imp.what+", appended", append(append([]byte(nil), st.img...), buf.Bytes()...)) {
			return n
		}
		img := rewriteTape(st.img, st.recs, func(i int, outer *tar.Header, c []byte) ([]*tar.Header, [][]byte) {
			if i == ti {
				return []*tar.Header{st.wrapOuter(emb, &sig, rig)}, [][]byte{content}
			}
			return []*tar.Header{outer}, [][]byte{c}
		})
		if !try("record signed by the attacker's key, issuer relabelled as "+imp.what+", in place", img) {
			return n
		}
	}
	// validly signed records, untouched, with ADDITIONAL unsigned PAX records on the wrapper header (without encryption the wrapper is
	// plain): whatever is accepted must still be exactly the signed header
	if st.cfg.Enc == "" {
		extras := []map[string]string{
			{"STFS.ReplacesName": "/docs/other.txt"},
			{"STFS.Action": "DELETE"},
			{"STFS.Action": "UPDATE", "STFS.ReplacesContent": "true", "STFS.UncompressedSize": "1"},
			{"STFS.Version": "2", "comment": "x"},
			{"path": "/evil-path", "size": "1"},
		}
		for ei, extra := range extras {
			for i, rc := range st.recs {
				if rc.Embedded == "" || rc.SigRec == "" || (i+ei)%2 == 1 {
					continue
				}
				withExtra := func(outer *tar.Header) *tar.Header {
					h := *outer
					h.PAXRecords = map[string]string{}
					for k, v := range outer.PAXRecords {
						h.PAXRecords[k] = v
					}
					for k, v := range extra {
						h.PAXRecords[k] = v
					}
					h.Format = tar.FormatPAX
					return &h
				}
				var keys []string
				for k := range extra {
					keys = append(keys, k)
				}
				sort.Strings(keys)
				// in place
				img := rewriteTape(st.img, st.recs, func(j int, outer *tar.Header, content []byte) ([]*tar.Header, [][]byte) {
					if j == i {
						return []*tar.Header{withExtra(outer)}, [][]byte{content}
					}
					return []*tar.Header{outer}, [][]byte{content}
				})
				res.count("extra_wrapper_record_forgeries", 1)
				if !try(fmt.Sprintf("signed record %d untouched but with extra unsigned wrapper records %v, in place", i, keys), img) {
					return n
				}
				// replayed at the end
				var buf bytes.Buffer
				tw := tar.NewWriter(&buf)
				h := withExtra(rc.Outer)
				content := st.img[rc.ContentOff : rc.ContentOff+rc.ContentLen]
				h.Size = int64(len(content))
				if err := tw.WriteHeader(h); err == nil {
					_, _ = tw.Write(content)
					_ = tw.Close()
					if !try(fmt.Sprintf("signed record %d replayed at the end with extra unsigned wrapper records %v", i, keys), append(append([]byte(nil), st.img...), buf.Bytes()...)) {
						return n
					}
				}
			}
		}
	}
	// validly signed records that carry no content (links, directories, delete / move / metadata records), untouched, but with a
	// size and content given to them in the unsigned wrapper: nothing of that content may ever be delivered
	for i, rc := range st.recs {
		if rc.ContentLen != 0 || rc.Embedded == "" || st.cfg.Enc != "" {
			continue
		}
		evil := bytes.Repeat([]byte("EVIL"), 100)
		img := rewriteTape(st.img, st.recs, func(j int, outer *tar.Header, content []byte) ([]*tar.Header, [][]byte) {
			if j == i {
				h := *outer
				h.Size = int64(len(evil))
				return []*tar.Header{&h}, [][]byte{evil}
			}
			return []*tar.Header{outer}, [][]byte{content}
		})
		res.count("content_behind_contentless_record_forgeries", 1)
		kindOf := "?"
		if rc.Inner != nil {
			kindOf = string(rune(rc.Inner.Typeflag))
		}
		if !try(fmt.Sprintf("signed content-less record %d (type %s) untouched but followed by 400 bytes of content declared in the wrapper", i, kindOf), img) {
			return n
		}
	}
	// unsigned records appended by a plain tar writer
	for _, variant := range []string{"plain", "with STFS records", "embedded header only"} {
		var buf bytes.Buffer
		tw := tar.NewWriter(&buf)
		body := []byte("unsigned content")
		h := &tar.Header{Name: "/unsigned.txt", Mode: 0o644, Size: int64(len(body)), Format: tar.FormatPAX, Typeflag: tar.TypeReg}
		switch variant {
		case "with STFS records":
			h.PAXRecords = map[string]string{"STFS.Version": "1", "STFS.Action": "CREATE", "STFS.UncompressedSize": fmt.Sprint(len(body))}
		case "embedded header only":
			j, _ := json.Marshal(h)
			h = st.wrapOuter(string(j), nil, rig)
			h.Size = int64(len(body))
		}
		_ = tw.WriteHeader(h)
		_, _ = tw.Write(body)
		_ = tw.Close()
		if !try("unsigned record appended by a plain tar writer ("+variant+")", append(append([]byte(nil), st.img...), buf.Bytes()...)) {
			return n
		}
	}
	return n
}

// impersonation is one way for somebody holding only the recipient's PUBLIC key to label a signature made with another key.
type impersonation struct {
	what string
	sign func(data []byte) string
}

func (st *signedTape) impersonations(rig *Rig) (out []impersonation) {
	foreignKeys.mu.Lock()
	_ = foreignKeys.ensureSig(st.cfg.Sig)
	fid := foreignKeys.sigI[st.cfg.Sig]
	foreignKeys.mu.Unlock()
	switch st.cfg.Sig {
	case config.SignatureFormatMinisignKey:
		priv, ok1 := fid.(minisign.PrivateKey)
		pub, ok2 := rig.RC.Recipient.(minisign.PublicKey)
		if !ok1 || !ok2 {
			return nil
		}
		out = append(out, impersonation{what: "the recipient's minisign key id", sign: func(data []byte) string {
			var sg minisign.Signature
			if err := sg.UnmarshalText(minisign.Sign(priv, data)); err != nil {
				return ""
			}
			sg.KeyID = pub.ID()
			b, _ := sg.MarshalText()
			return base64.StdEncoding.EncodeToString(b)
		}})
	case config.SignatureFormatPGPKey:
		att, ok1 := fid.(openpgp.EntityList)
		rcp, ok2 := rig.RC.Recipient.(openpgp.EntityList)
		if !ok1 || !ok2 || len(att) < 1 || len(rcp) < 1 || att[0].PrivateKey == nil {
			return nil
		}
		type tk struct {
			what string
			key  *packet.PublicKey
		}
		tks := []tk{{"the recipient's primary key", rcp[0].PrimaryKey}, {"nobody (no issuer subpacket)", nil}}
		for i, sk := range rcp[0].Subkeys {
			tks = append(tks, tk{fmt.Sprintf("the recipient's subkey %d", i), sk.PublicKey})
		}
		for _, t := range tks {
			t := t
			out = append(out, impersonation{what: t.what, sign: func(data []byte) string {
				var c *packet.Config
				priv := *att[0].PrivateKey
				sig := new(packet.Signature)
				sig.SigType = packet.SigTypeBinary
				sig.PubKeyAlgo = priv.PubKeyAlgo
				sig.Hash = c.Hash()
				sig.CreationTime = c.Now()
				if t.key != nil {
					priv.PublicKey.KeyId = t.key.KeyId
					priv.PublicKey.Fingerprint = t.key.Fingerprint
					sig.IssuerKeyId = &t.key.KeyId
				}
				h := sig.Hash.New()
				h.Write(data)
				if err := sig.Sign(h, &priv, c); err != nil {
					return ""
				}
				var b bytes.Buffer
				if err := sig.Serialize(&b); err != nil {
					return ""
				}
				return base64.StdEncoding.EncodeToString(b.Bytes())
			}})
		}
	}
	return
}

// forgeAs returns an embedded header naming a new file, carrying a content signature made by the impersonation over the target's
// on-tape content bytes (so that decryption and decompression of the content still work), and those bytes.
func (st *signedTape) forgeAs(tgt TapeRec, imp impersonation) (string, []byte, bool) {
	var inner tar.Header
	if err := json.Unmarshal([]byte(tgt.Embedded), &inner); err != nil {
		return "", nil, false
	}
	content := st.img[tgt.ContentOff : tgt.ContentOff+tgt.ContentLen]
	inner.Name = strings.Replace(inner.Name, "secret", "forged", 1)
	if inner.PAXRecords == nil {
		inner.PAXRecords = map[string]string{}
	}
	inner.PAXRecords["STFS.Signature"] = imp.sign(content)
	j, err := json.Marshal(&inner)
	if err != nil {
		return "", nil, false
	}
	return string(j), content, true
}

func init() {
	register(&Engine{Name: "tamper", Props: []string{"C08"}, Cases: tamperCases, Run: tamperRun})
	propMeta["C08"] = PropMeta{Level: "exploration",
		Rule:        "per tape (8 calls: mkdir, files with content, chmod, empty file, rename, remove) written under a signature format x encryption x compression: (flips) EVERY byte position of the tape is altered with each mask in {0x01,(0x80,)0xFF}, sharded over the cases; (forgeries) edited embedded header in place and appended, each with kept / removed / empty / non-base64 / base64-garbage / re-encoded / truncated / other record's signature, swapped signatures, replaced content with recomputed size, content of another signed record, records signed by a second key pair appended and prepended, records signed by that second key whose header and content signatures are relabelled to name the recipient's key as issuer (pgp: primary key, each subkey, no issuer; minisign: the recipient's key id), validly signed records left untouched but carrying additional unsigned PAX records on their (unencrypted) wrapper header - STFS.ReplacesName, STFS.Action, STFS.ReplacesContent/UncompressedSize, path/size - in place and replayed at the end, unsigned records by a plain tar writer; for every altered tape the real recovery.Index, recovery.Query and recovery.Fetch (at every pristine record position and every position the resulting index points to) run with the real verifier: every header they accept must equal, field for field incl. PAX records, a header the legitimate writer signed, and every successful Fetch must return exactly the bytes signed under that header; non-trivial = at least 100 alterations (flips) / 8 forgeries; distinct = distinct case; forgeries also give content to signed records that have none (links, directories, metadata records); over every altered tape each directory is restored recursively (a restore that reports success delivered only signed bytes) and the key holder writes one byte into each file (what reads back is signed content, with or without that byte)",
		Assumptions: []string{"replay, reordering and truncation of validly signed records are outside the statement and are not flagged", "with encryption on, forgeries are encrypted to the recipient's public key (which an attacker has)"}}
}
