package main

import (
	"archive/tar"
	"strconv"
	"strings"
)

// Independent interpreter of "what a sequence of STFS records means" (used by C04, C06, C16).
// It is deliberately written from the format description, not from pkg/recovery.

type RNode struct {
	Name       string
	Typeflag   byte
	Size       int64
	Mode       int64
	Uid, Gid   int
	Mtime      int64
	ContentOff int64 // offset of the record that last carried this entry's content
	LastOff    int64 // offset of the last record that touched the entry
}

type RState map[string]*RNode

func (s RState) clone() RState {
	c := RState{}
	for k, v := range s {
		n := *v
		c[k] = &n
	}
	return c
}

func stripCodecSuffix(name string, cfg Cfg) string {
	switch cfg.Enc {
	case "age":
		name = strings.TrimSuffix(name, ".age")
	case "pgp":
		name = strings.TrimSuffix(name, ".pgp")
	}
	switch cfg.Comp {
	case "gzip", "parallelgzip":
		name = strings.TrimSuffix(name, ".gz")
	case "lz4":
		name = strings.TrimSuffix(name, ".lz4")
	case "zstandard":
		name = strings.TrimSuffix(name, ".zst")
	case "brotli":
		name = strings.TrimSuffix(name, ".br")
	case "bzip2", "parallelbzip2":
		name = strings.TrimSuffix(name, ".bz2")
	}
	return name
}

func isRegular(h *tar.Header) bool {
	return h.Typeflag == tar.TypeReg || h.Typeflag == 0
}

// applyRecord applies one decoded record to the state.
func (s RState) applyRecord(rec TapeRec, cfg Cfg) {
	h := rec.Inner
	if h == nil {
		return
	}
	action := stfsAction(h)
	name := h.Name
	size := h.Size
	usz, hasUsz := h.PAXRecords["STFS.UncompressedSize"]
	if hasUsz {
		if v, err := strconv.ParseInt(usz, 10, 64); err == nil {
			size = v
		}
	}
	_, isMove := h.PAXRecords["STFS.ReplacesName"]
	// a move record is built from the stored row and inherits its PAX map (possibly a stale ReplacesContent=true); it never carries content
	replaces := h.PAXRecords["STFS.ReplacesContent"] == "true" && !isMove
	carriesContent := isRegular(h) && hasUsz && (action == "CREATE" || (action == "UPDATE" && replaces))
	if carriesContent {
		name = stripCodecSuffix(name, cfg)
	}
	// equivalent spellings ("a/b", "./a/b", "/a/b") name the same entry
	name = normRowName(name)
	mk := func(contentOff int64) *RNode {
		return &RNode{Name: name, Typeflag: h.Typeflag, Size: size, Mode: h.Mode, Uid: h.Uid, Gid: h.Gid, Mtime: h.ModTime.UnixNano(), ContentOff: contentOff, LastOff: rec.Off}
	}
	switch action {
	case "CREATE":
		s[name] = mk(rec.Off)
	case "DELETE":
		delete(s, name)
	case "UPDATE":
		old := name
		if rn, ok := h.PAXRecords["STFS.ReplacesName"]; ok {
			old = normRowName(rn)
		}
		cur, exists := s[old]
		if replaces {
			if exists {
				s[old] = mk(rec.Off)
				s[old].Name = old
			}
		} else if exists {
			n := mk(cur.ContentOff)
			n.Name = old
			s[old] = n
		}
		if old != name {
			if n, ok := s[old]; ok {
				delete(s, old)
				n.Name = name
				n.LastOff = rec.Off
				s[name] = n
			}
		}
	}
}

// Interpret returns the state after the first n records.
func Interpret(recs []TapeRec, cfg Cfg, n int) RState {
	s := RState{}
	for i := 0; i < n && i < len(recs); i++ {
		s.applyRecord(recs[i], cfg)
	}
	return s
}
