#!/bin/bash
# Regression of the stored seeded changes against the current quick tiers (for `vp run -- tools/seedregress.sh`):
# each patch is applied to a scratch worktree of /repo's HEAD (never to /repo), the quick checks named in meta.json run against that
# worktree through VERIF_REPO, and the exit code must be 1. Seeds whose patch no longer applies to HEAD are reported as SKIP.
export GOFLAGS=-mod=mod GOPROXY=off GOSUMDB=off GOTOOLCHAIN=local
cd "$(dirname "$0")/.."
WT=$(mktemp -d /tmp/seedreg.XXXXXX)
git -C /repo worktree add --detach "$WT" HEAD -q || exit 2
trap 'git -C /repo worktree remove --force "$WT"' EXIT
for d in ${SEEDS:-seeded/S*}; do
  id=$(basename $d)
  git -C "$WT" checkout -q -- . ; git -C "$WT" clean -fdq
  if ! git -C "$WT" apply "$PWD/$d/patch.diff" 2>/dev/null; then echo "SKIP $id (patch does not apply to HEAD)"; continue; fi
  for prop in $(python3 -c "import json;print(' '.join(json.load(open('$d/meta.json'))['detected_by_quick']))"); do
    out=$(VERIF_REPO="$WT" bin/check $prop quick 2>&1); rc=$?
    if [ $rc -eq 1 ]; then echo "CAUGHT $id $prop $(echo "$out" | grep -m1 -A1 '^VIOLATION' | tail -1 | cut -c1-120)"; else echo "MISSED $id $prop rc=$rc $(echo "$out" | grep '^SUMMARY\|BUILD' | cut -c1-160)"; fi
  done
done
echo done
