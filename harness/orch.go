package main

import (
	"syscall"
	"bufio"
	"crypto/sha256"
	"encoding/hex"
	"encoding/json"
	"fmt"
	"os"
	"os/exec"
	"path/filepath"
	"regexp"
	"runtime"
	"sort"
	"strconv"
	"strings"
	"sync"
	"sync/atomic"
	"time"
)

// verifRoot is where evidence, replays and KNOWN_FINDINGS.txt live: the checkout this binary was built from (bin/check exports it)
var verifRoot = func() string {
	if v := os.Getenv("VERIF_ROOT"); v != "" {
		return v
	}
	return "/verif"
}()

type Case struct {
	ID   string          `json:"id"`
	Seed uint64          `json:"seed"`
	Kind string          `json:"kind,omitempty"`
	P    json.RawMessage `json:"p,omitempty"`
}

type Result struct {
	Case       string              `json:"case"`
	Verdict    string              `json:"verdict"` // ok | violation | inconclusive
	Sig        string              `json:"sig,omitempty"`
	Msg        string              `json:"msg,omitempty"`
	Detail     any                 `json:"detail,omitempty"`
	NonTrivial bool                `json:"nontrivial"`
	Key        string              `json:"key,omitempty"`
	Counters   map[string]int64    `json:"counters,omitempty"`
	Sets       map[string][]string `json:"sets,omitempty"`
	Sample     any                 `json:"sample,omitempty"`
}

func (r *Result) count(k string, n int64) {
	if r.Counters == nil {
		r.Counters = map[string]int64{}
	}
	r.Counters[k] += n
}
func (r *Result) setAdd(k, v string) {
	if r.Sets == nil {
		r.Sets = map[string][]string{}
	}
	for _, x := range r.Sets[k] {
		if x == v {
			return
		}
	}
	r.Sets[k] = append(r.Sets[k], v)
}
func (r *Result) violate(sig, msg string) {
	if r.Verdict == "violation" {
		return // keep the first
	}
	r.Verdict = "violation"
	r.Sig = sig
	r.Msg = squeezeRuns(msg)
}

// squeezeRuns shortens runs of one repeated byte (names of tens of kilobytes) in messages: "wwww...w" -> "w{70000}".
func squeezeRuns(s string) string {
	var b strings.Builder
	for i := 0; i < len(s); {
		j := i
		for j < len(s) && s[j] == s[i] {
			j++
		}
		if j-i > 40 {
			fmt.Fprintf(&b, "%c{%d}", s[i], j-i)
		} else {
			b.WriteString(s[i:j])
		}
		i = j
	}
	return b.String()
}

type Engine struct {
	Name  string
	Props []string
	Cases func(prop, tier string, seed uint64) []Case
	Run   func(prop, tier string, c Case, w *Worker) Result
}

var engines = map[string]*Engine{}    // by property id
var engineByName = map[string]*Engine{}

func register(e *Engine) {
	engineByName[e.Name] = e
	for _, p := range e.Props {
		engines[p] = e
	}
}

type PropMeta struct {
	Level       string
	Rule        string
	Assumptions []string
}

var propMeta = map[string]PropMeta{}

// ---------------------------------------------------------------------------------------------
// Worker side

var globalProgress atomic.Int64

func beat() { globalProgress.Add(1) }

// stepMark is the value of the seam-event counter when the current logical step (one call under test, one rebuild, one restore)
// began. A step that produces more than stepBudget seam events without finishing is a livelock: a logical bound, not a deadline.
var stepMark atomic.Int64

const stepBudgetDefault = 400_000

// stepBudget is raised by the few cases that legitimately move gigabytes through the drive in one step (8 KiB per drive read).
var stepBudget atomic.Int64

func init() { stepBudget.Store(stepBudgetDefault) }

func stepBegin() { stepMark.Store(globalProgress.Load()) }

type Worker struct {
	Scratch string
	Tier    string
	Prop    string
	stall   atomic.Int64 // seconds
	dirSeq  int
}

func (w *Worker) SetStall(sec int) { w.stall.Store(int64(sec)) }

// NewDir returns a fresh directory below the worker's scratch space. Directories are only removed when the worker exits
// (a late reader goroutine of stfs stats the drive; removing it earlier manufactures a failure that is not stfs's).
func (w *Worker) NewDir(tag string) string {
	w.dirSeq++
	d := filepath.Join(w.Scratch, fmt.Sprintf("%s-%d", tag, w.dirSeq))
	_ = os.MkdirAll(d, 0o777)
	return d
}

func defaultStall(tier string) int {
	if v := os.Getenv("VERIF_STALL"); v != "" {
		if n, err := strconv.Atoi(v); err == nil {
			return n
		}
	}
	if tier == "thorough" {
		return 120
	}
	return 60
}

var gorHeader = regexp.MustCompile(`^goroutine (\d+) \[([^\],]+)`)

// classifyDump decides from a full goroutine dump whether the process is deadlocked inside stfs.
func classifyDump(dump string) (deadlock bool, summary string) {
	blocks := strings.Split(dump, "\n\n")
	blockedStfs := 0
	activeStfs := 0
	var chains []string
	for _, b := range blocks {
		lines := strings.Split(b, "\n")
		if len(lines) == 0 {
			continue
		}
		m := gorHeader.FindStringSubmatch(lines[0])
		if m == nil {
			continue
		}
		if !strings.Contains(b, "github.com/pojntfx/stfs/") {
			continue
		}
		state := m[2]
		switch state {
		case "running", "runnable", "syscall", "IO wait", "sleep", "GC assist wait":
			activeStfs++
		default:
			blockedStfs++
		}
		var fr []string
		for _, l := range lines[1:] {
			if strings.HasPrefix(l, "\t") || l == "" {
				continue
			}
			fn := l
			if i := strings.LastIndex(fn, "("); i > 0 {
				fn = fn[:i] // drop the argument list, keep receivers like (*TapeManager)
			}
			if strings.Contains(fn, "pojntfx/stfs") || strings.HasPrefix(fn, "sync.") || strings.HasPrefix(fn, "io.(*pipe)") {
				fn = strings.TrimPrefix(fn, "github.com/pojntfx/stfs/")
				fr = append(fr, fn)
			}
			if len(fr) >= 5 {
				break
			}
		}
		chains = append(chains, "["+state+"] "+strings.Join(fr, " <- "))
	}
	sort.Strings(chains)
	return blockedStfs > 0 && activeStfs == 0, strings.Join(chains, " || ")
}

func runWorker(prop, tier, casesPath, outPath, scratch string, shard, of int, skip map[string]bool) int {
	e := engines[prop]
	if e == nil {
		fmt.Fprintln(os.Stderr, "no engine for", prop)
		return 2
	}
	var cases []Case
	b, err := os.ReadFile(casesPath)
	if err != nil {
		fmt.Fprintln(os.Stderr, err)
		return 2
	}
	if err := json.Unmarshal(b, &cases); err != nil {
		fmt.Fprintln(os.Stderr, err)
		return 2
	}
	out, err := os.OpenFile(outPath, os.O_APPEND|os.O_CREATE|os.O_WRONLY, 0o666)
	if err != nil {
		fmt.Fprintln(os.Stderr, err)
		return 2
	}
	defer out.Close()
	w := &Worker{Scratch: scratch, Tier: tier, Prop: prop}
	w.SetStall(defaultStall(tier))
	_ = os.MkdirAll(scratch, 0o777)
	var outMu sync.Mutex
	emit := func(prefix string, v any) {
		outMu.Lock()
		defer outMu.Unlock()
		switch x := v.(type) {
		case string:
			fmt.Fprintf(out, "%s %s\n", prefix, x)
		default:
			j, _ := json.Marshal(x)
			fmt.Fprintf(out, "%s %s\n", prefix, j)
		}
		_ = out.Sync()
	}
	for i, c := range cases {
		if i%of != shard || skip[c.ID] {
			continue
		}
		emit("B", c.ID)
		done := make(chan Result, 1)
		go func(c Case) {
			done <- e.Run(prop, tier, c, w)
		}(c)
		last := globalProgress.Load()
		lastChange := time.Now()
		tick := time.NewTicker(500 * time.Millisecond)
	wait:
		for {
			select {
			case r := <-done:
				r.Case = c.ID
				if r.Verdict == "" {
					r.Verdict = "ok"
				}
				emit("R", r)
				break wait
			case <-tick.C:
				cur := globalProgress.Load()
				if cur-stepMark.Load() > stepBudget.Load() {
					buf := make([]byte, 8<<20)
					n := runtime.Stack(buf, true)
					_, summary := classifyDump(string(buf[:n]))
					what, _ := currentNote.Load().(string)
					fmt.Fprintf(os.Stderr, "WATCHDOG case=%s livelock: more than %d seam events in one step (%s)\n%s\n", c.ID, stepBudget.Load(), what, string(buf[:n]))
					r := Result{Case: c.ID, Verdict: "violation", Sig: "livelock|" + hangSig(summary), Msg: fmt.Sprintf("call never returned: it performed more than %d drive/index-store events without finishing (%s): %s", stepBudget.Load(), what, summary), Detail: map[string]any{"case": c}}
					emit("R", r)
					tick.Stop()
					return 3
				}
				if cur != last {
					last = cur
					lastChange = time.Now()
					continue
				}
				if time.Since(lastChange) > time.Duration(w.stall.Load())*time.Second {
					buf := make([]byte, 8<<20)
					n := runtime.Stack(buf, true)
					dump := string(buf[:n])
					dl, summary := classifyDump(dump)
					fmt.Fprintf(os.Stderr, "WATCHDOG case=%s no seam progress for %ds\n%s\n", c.ID, w.stall.Load(), dump)
					r := Result{Case: c.ID, Detail: map[string]any{"case": c}}
					if dl {
						r.Verdict = "violation"
						r.Sig = "hang|" + hangSig(summary)
						r.Msg = "call never returned: all stfs goroutines blocked: " + summary
					} else {
						r.Verdict = "inconclusive"
						r.Msg = "watchdog fired but stfs goroutines are still active: " + summary
					}
					emit("R", r)
					tick.Stop()
					return 3
				}
			}
		}
		tick.Stop()
	}
	return 0
}

// hangSig normalises a blocked-goroutine summary into a signature (states + outermost stfs frames, no line numbers)
func hangSig(summary string) string {
	h := sha256.Sum256([]byte(summary))
	return hex.EncodeToString(h[:6])
}

// ---------------------------------------------------------------------------------------------
// Orchestrator side

type knownFinding struct {
	Prop string
	ID   string
	Sig  string
	Desc string
}

func loadKnownFindings() ([]knownFinding, error) {
	f, err := os.Open(filepath.Join(verifRoot, "KNOWN_FINDINGS.txt"))
	if err != nil {
		if os.IsNotExist(err) {
			return nil, nil
		}
		return nil, err
	}
	defer f.Close()
	var out []knownFinding
	sc := bufio.NewScanner(f)
	sc.Buffer(make([]byte, 1<<20), 1<<20)
	re := regexp.MustCompile(`^open:\s+property=(C\d+)\s+id=(\S+)\s+sig=(\S+)\s+(.*)$`)
	for sc.Scan() {
		l := strings.TrimSpace(sc.Text())
		if m := re.FindStringSubmatch(l); m != nil {
			out = append(out, knownFinding{Prop: m[1], ID: m[2], Sig: m[3], Desc: m[4]})
		}
	}
	return out, sc.Err()
}

func tailFile(p string, n int) string {
	b, err := os.ReadFile(p)
	if err != nil {
		return ""
	}
	if len(b) > n {
		b = b[len(b)-n:]
	}
	return string(b)
}

func classifyCrash(log string) string {
	switch {
	case strings.Contains(log, "WARNING: DATA RACE"):
		return "datarace"
	case strings.Contains(log, "all goroutines are asleep"):
		return "deadlock-fatal"
	case strings.Contains(log, "fatal error:"):
		return "fatal"
	case strings.Contains(log, "panic:"):
		return "panic"
	case strings.Contains(log, "ThreadSanitizer"):
		return "tsan-runtime"
	case strings.Contains(log, "signal: killed"), strings.Contains(log, "out of memory"):
		return "killed"
	}
	return "died"
}

var stfsFrame = regexp.MustCompile(`github\.com/pojntfx/stfs/[\w/]+\.[\w\(\)\*\.]+`)

func crashFrames(log string) string {
	// outermost distinct stfs frames mentioned after the crash marker
	idx := strings.LastIndex(log, "panic:")
	for _, mk := range []string{"fatal error:", "WARNING: DATA RACE"} {
		if i := strings.Index(log, mk); i >= 0 && (idx < 0 || i < idx) {
			idx = i
		}
	}
	if idx < 0 {
		idx = 0
	}
	fr := stfsFrame.FindAllString(log[idx:], -1)
	seen := map[string]bool{}
	var out []string
	for _, f := range fr {
		f = strings.TrimPrefix(f, "github.com/pojntfx/stfs/")
		if !seen[f] {
			seen[f] = true
			out = append(out, f)
		}
		if len(out) >= 4 {
			break
		}
	}
	return strings.Join(out, ",")
}

type shardState struct {
	idx      int
	finished map[string]bool
	results  []Result
	respawns int
}

func readJournal(p string) (results []Result, open string) {
	f, err := os.Open(p)
	if err != nil {
		return nil, ""
	}
	defer f.Close()
	sc := bufio.NewScanner(f)
	sc.Buffer(make([]byte, 64<<20), 64<<20)
	for sc.Scan() {
		l := sc.Text()
		if strings.HasPrefix(l, "B ") {
			open = l[2:]
		} else if strings.HasPrefix(l, "R ") {
			var r Result
			if json.Unmarshal([]byte(l[2:]), &r) == nil {
				results = append(results, r)
				if r.Case == open {
					open = ""
				}
			}
		}
	}
	return
}

func orchestrate(prop, tier string, seed uint64) int {
	start := time.Now()
	e := engines[prop]
	if e == nil {
		fmt.Fprintln(os.Stderr, "unknown property", prop)
		return 2
	}
	known, err := loadKnownFindings()
	if err != nil {
		fmt.Fprintln(os.Stderr, "known findings:", err)
		return 2
	}
	// checks whose oracle is a model first validate that model against the kernel / os.File (C09: the needle set against a clear tape)
	if sel := map[string][]int{"C02": {0}, "C11": {0}, "C14": {1}, "C09": {2}}[prop]; len(sel) > 0 {
		for _, i := range sel {
			if i < len(selfTests) {
				if err := selfTests[i].fn(); err != nil {
					fmt.Printf("INCONCLUSIVE property=%s the harness's own oracle failed its self-test (%s): %v\n", prop, selfTests[i].name, err)
					return 2
				}
			}
		}
	}
	cases := e.Cases(prop, tier, seed)
	if len(cases) == 0 {
		fmt.Fprintln(os.Stderr, "no cases")
		return 2
	}
	tmp := os.Getenv("TMPDIR")
	if tmp == "" {
		tmp = "/tmp"
		// sqlite fsyncs on every statement; on a memory-backed filesystem the same workload runs about five times faster
		if st, err := os.Stat("/dev/shm"); err == nil && st.IsDir() {
			if d, err := os.MkdirTemp("/dev/shm", "verif-probe-"); err == nil {
				_ = os.Remove(d)
				// only if it has room: the far / giant / huge cases keep several GiB of (mostly sparse) files there at a time
				var fs syscall.Statfs_t
				if err := syscall.Statfs("/dev/shm", &fs); err == nil && uint64(fs.Bavail)*uint64(fs.Bsize) >= 16<<30 {
					tmp = "/dev/shm"
				}
			}
		}
	}
	scratch, err := os.MkdirTemp(tmp, "verif-"+prop+"-")
	if err != nil {
		fmt.Fprintln(os.Stderr, err)
		return 2
	}
	defer os.RemoveAll(scratch)
	casesPath := filepath.Join(scratch, "cases.json")
	cb, _ := json.Marshal(cases)
	if err := os.WriteFile(casesPath, cb, 0o666); err != nil {
		fmt.Fprintln(os.Stderr, err)
		return 2
	}
	nw := runtime.NumCPU()
	if v := os.Getenv("VERIF_WORKERS"); v != "" {
		if n, err := strconv.Atoi(v); err == nil && n > 0 {
			nw = n
		}
	}
	if nw > len(cases) {
		nw = len(cases)
	}
	self, _ := os.Executable()
	caseByID := map[string]Case{}
	for _, c := range cases {
		caseByID[c.ID] = c
	}

	var mu sync.Mutex
	var all []Result
	var wg sync.WaitGroup
	for i := 0; i < nw; i++ {
		wg.Add(1)
		go func(i int) {
			defer wg.Done()
			skip := map[string]bool{}
			for attempt := 0; attempt < 200; attempt++ {
				outPath := filepath.Join(scratch, fmt.Sprintf("w%d-%d.jsonl", i, attempt))
				logPath := filepath.Join(scratch, fmt.Sprintf("w%d-%d.log", i, attempt))
				wscratch := filepath.Join(scratch, fmt.Sprintf("w%d-%d", i, attempt))
				skipPath := filepath.Join(scratch, fmt.Sprintf("w%d-%d.skip", i, attempt))
				sb, _ := json.Marshal(skip)
				_ = os.WriteFile(skipPath, sb, 0o666)
				cmd := exec.Command(self, "worker", prop, tier, casesPath, outPath, wscratch, strconv.Itoa(i), strconv.Itoa(nw), skipPath)
				lf, _ := os.Create(logPath)
				cmd.Stdout = lf
				cmd.Stderr = lf
				cmd.Env = append(os.Environ(), "GOTRACEBACK=all")
				if prop == "C11" && os.Getenv("GOMAXPROCS") == "" {
					cmd.Env = append(cmd.Env, fmt.Sprintf("GOMAXPROCS=%d", []int{2, 4, 16}[i%3]))
				}
				err := cmd.Run()
				lf.Close()
				rs, open := readJournal(outPath)
				mu.Lock()
				all = append(all, rs...)
				mu.Unlock()
				for _, r := range rs {
					skip[r.Case] = true
				}
				_ = os.RemoveAll(wscratch)
				if err == nil {
					return
				}
				if open != "" {
					log := tailFile(logPath, 8<<20)
					kind := classifyCrash(log)
					r := Result{Case: open, Verdict: "violation", Sig: "crash|" + kind + "|" + crashFrames(log), Msg: "worker process died while running this case (" + kind + ")", Detail: map[string]any{"case": caseByID[open], "log_head_of_crash": crashHead(log, 8000), "log_tail": tailStr(log, 3000)}}
					mu.Lock()
					all = append(all, r)
					mu.Unlock()
					skip[open] = true
				} else if len(rs) == 0 {
					// worker failed without running anything: harness problem
					mu.Lock()
					all = append(all, Result{Case: fmt.Sprintf("worker-%d", i), Verdict: "inconclusive", Msg: "worker failed to start: " + tailFile(logPath, 2000)})
					mu.Unlock()
					return
				}
			}
		}(i)
	}
	wg.Wait()
	return report(prop, tier, seed, cases, all, known, time.Since(start))
}

// crashHead returns the part of a worker log where the crash report starts (the cause is at the top of a Go crash dump).
func crashHead(log string, n int) string {
	first := -1
	for _, mk := range []string{"WARNING: DATA RACE", "fatal error:", "panic:", "SIGSEGV", "SIGABRT", "SIGBUS", "unexpected signal", "runtime: ", "ThreadSanitizer", "FATAL", "WATCHDOG"} {
		if i := strings.Index(log, mk); i >= 0 && (first < 0 || i < first) {
			first = i
		}
	}
	if first < 0 {
		return tailStr(log, n)
	}
	if first > 300 {
		first -= 300
	} else {
		first = 0
	}
	end := first + n
	if end > len(log) {
		end = len(log)
	}
	return log[first:end]
}

func tailStr(s string, n int) string {
	if len(s) > n {
		return s[len(s)-n:]
	}
	return s
}

func report(prop, tier string, seed uint64, cases []Case, all []Result, known []knownFinding, wall time.Duration) int {
	meta := propMeta[prop]
	counters := map[string]int64{}
	sets := map[string]map[string]bool{}
	distinct := map[string]bool{}
	var samples []any
	var viol, inconc, ok int
	unlisted := 0
	knownSeen := map[string]bool{}
	caseByID := map[string]Case{}
	for _, c := range cases {
		caseByID[c.ID] = c
	}
	sort.Slice(all, func(i, j int) bool { return all[i].Case < all[j].Case })
	_ = os.MkdirAll(filepath.Join(verifRoot, "replays"), 0o777)
	for _, r := range all {
		for k, v := range r.Counters {
			counters[k] += v
		}
		for k, vs := range r.Sets {
			if sets[k] == nil {
				sets[k] = map[string]bool{}
			}
			for _, v := range vs {
				sets[k][v] = true
			}
		}
		switch r.Verdict {
		case "ok":
			ok++
		case "inconclusive":
			inconc++
			fmt.Printf("INCONCLUSIVE property=%s case=%s %s\n", prop, r.Case, firstLine(r.Msg))
		case "violation":
			viol++
			matched := false
			for _, k := range known {
				if k.Prop == prop && k.Sig == r.Sig {
					matched = true
					if !knownSeen[k.ID] {
						knownSeen[k.ID] = true
						fmt.Printf("KNOWN-FINDING: property=%s %s (id=%s)\n", prop, k.Desc, k.ID)
					}
					break
				}
			}
			if !matched {
				unlisted++
				h := sha256.Sum256([]byte(r.Case + r.Sig + r.Msg))
				rp := filepath.Join(verifRoot, "replays", fmt.Sprintf("%s-%s.json", prop, hex.EncodeToString(h[:5])))
				rep := map[string]any{"property": prop, "tier": tier, "seed": seed, "case": caseByID[r.Case], "result": r}
				jb, _ := json.MarshalIndent(rep, "", " ")
				_ = os.WriteFile(rp, jb, 0o666)
				if unlisted <= 25 {
					fmt.Printf("VIOLATION property=%s replay=%s\n", prop, rp)
					fmt.Printf("  case=%s sig=%s\n  %s\n", r.Case, r.Sig, firstLine(r.Msg))
				}
			}
		}
		if r.NonTrivial && r.Verdict != "inconclusive" {
			if r.Key == "" {
				r.Key = r.Case
			}
			if !distinct[r.Key] {
				distinct[r.Key] = true
				if len(samples) < 4 && r.Sample != nil {
					samples = append(samples, r.Sample)
				}
			}
		}
	}
	if len(samples) == 0 {
		for _, r := range all {
			if r.Sample != nil {
				samples = append(samples, r.Sample)
				break
			}
		}
	}
	cov := map[string]any{
		"evaluations":         len(all),
		"distinct_nontrivial": len(distinct),
		"rule":                meta.Rule,
		"samples":             samples,
		"cases_planned":       len(cases),
		"ok":                  ok,
		"inconclusive":        inconc,
		"violations_listed":   viol - unlisted,
		"violations_unlisted": unlisted,
	}
	for k, v := range counters {
		cov[k] = v
	}
	for k, v := range sets {
		cov["distinct_"+k] = len(v)
		if len(v) <= 40 {
			var l []string
			for x := range v {
				l = append(l, x)
			}
			sort.Strings(l)
			cov["set_"+k] = l
		}
	}
	if counters["exhaustive_spaces"] > 0 && counters["exhaustive_incomplete"] == 0 {
		cov["exhaustive_subspace"] = true
	}
	ev := map[string]any{
		"property_id": prop,
		"tier":        tier,
		"seed":        seed,
		"level":       meta.Level,
		"coverage":    cov,
		"assumptions": meta.Assumptions,
		"wall_s":      wall.Seconds(),
		"violations":  unlisted,
	}
	jb, _ := json.MarshalIndent(ev, "", " ")
	_ = os.MkdirAll(filepath.Join(verifRoot, "evidence"), 0o777)
	if err := os.WriteFile(filepath.Join(verifRoot, "evidence", prop+".json"), jb, 0o666); err != nil {
		fmt.Fprintln(os.Stderr, "evidence:", err)
	}
	fmt.Printf("SUMMARY property=%s tier=%s seed=%d cases=%d ok=%d violations=%d (unlisted %d) inconclusive=%d distinct_nontrivial=%d wall=%.1fs\n",
		prop, tier, seed, len(all), ok, viol, unlisted, inconc, len(distinct), wall.Seconds())
	var keys []string
	for k := range counters {
		keys = append(keys, k)
	}
	sort.Strings(keys)
	for _, k := range keys {
		fmt.Printf("  %s=%d", k, counters[k])
	}
	fmt.Println()
	if unlisted > 0 {
		return 1
	}
	decided := ok + viol
	if decided == 0 || len(all) < len(cases) || inconc*50 > len(all) || len(distinct) < 2 {
		fmt.Printf("INCONCLUSIVE property=%s decided=%d of %d planned, inconclusive=%d, distinct_nontrivial=%d\n", prop, decided, len(cases), inconc, len(distinct))
		return 2
	}
	return 0
}

func firstLine(s string) string {
	if i := strings.Index(s, "\n"); i >= 0 {
		s = s[:i]
	}
	if len(s) > 600 {
		s = s[:600] + "..."
	}
	return s
}
