#!/bin/bash
# Confirms a sub-agent's seeded change and runs quick checks against it, without touching /repo:
# usage: tools/seedeval.sh <agent-worktree> <Cxx> [more props...]
#   <agent-worktree> holds seed.patch and seeddemo/demo_test.go. A fresh scratch worktree of /repo's HEAD is made under /tmp, the
#   demonstration is run there without and with the patch, the pinned baseline is run with the patch (guard off), then the named
#   quick tiers are run against the patched scratch worktree through VERIF_REPO. SKIP_BASELINE=1 / SKIP_DEMO=1 skip those steps.
export GOFLAGS=-mod=mod GOPROXY=off GOSUMDB=off GOTOOLCHAIN=local
A=$1; shift
cd "$(dirname "$0")/.."
WT=$(mktemp -d /tmp/seedeval.XXXXXX)
git -C /repo worktree add --detach "$WT" HEAD -q || exit 2
trap 'git -C /repo worktree remove --force "$WT"; git -C /repo worktree prune' EXIT
mkdir -p "$WT/seeddemo" && cp -r "$A"/seeddemo/. "$WT/seeddemo/"
if [ -z "$SKIP_DEMO" ]; then
  (cd "$WT" && timeout 900 go test -p 4 -count=1 ./seeddemo/ > /tmp/seedeval.without.log 2>&1); echo "demo WITHOUT change: rc=$? (want 0)  $(tail -1 /tmp/seedeval.without.log | cut -c1-150)"
fi
git -C "$WT" apply "$A/seed.patch" || { echo "patch does not apply to HEAD"; exit 2; }
(cd "$WT" && go build ./... ) || { echo "does not compile"; exit 2; }
if [ -z "$SKIP_DEMO" ]; then
  (cd "$WT" && timeout 900 go test -p 4 -count=1 ./seeddemo/ > /tmp/seedeval.with.log 2>&1); echo "demo WITH change: rc=$? (want 1)  $(grep -m3 -- '--- FAIL\|panic\|DATA RACE' /tmp/seedeval.with.log | tr '\n' ' ' | cut -c1-200)"
fi
if [ -z "$SKIP_BASELINE" ]; then
  mv "$WT/seeddemo" /tmp/seedeval.demo.$$
  tools/baseline.sh "$WT" | head -5
  mv /tmp/seedeval.demo.$$ "$WT/seeddemo"
fi
rm -rf "$WT/seeddemo"
for prop in "$@"; do
  out=$(VERIF_REPO="$WT" bin/check $prop ${TIER:-quick} 2>&1); rc=$?
  echo "== $prop rc=$rc $(echo "$out" | grep -c '^VIOLATION') violation lines"
  echo "$out" | grep -A2 "^VIOLATION" | head -${LINES_SHOWN:-9} | cut -c1-400
  echo "$out" | grep "^SUMMARY\|^INCONCLUSIVE\|BUILD FAILED" | head -3 | cut -c1-250
done
git checkout -- evidence 2>/dev/null # (of the checkout this script runs in)
