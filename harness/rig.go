package main

import (
	"os/exec"
	"sort"
	"context"
	"errors"
	"fmt"
	"io"
	"os"
	"path/filepath"
	"runtime"
	"strconv"
	"strings"
	"sync"
	"sync/atomic"
	"time"

	golog "github.com/fclairamb/go-log"
	"github.com/pojntfx/stfs/pkg/cache"
	"github.com/pojntfx/stfs/pkg/config"
	"github.com/pojntfx/stfs/pkg/fs"
	"github.com/pojntfx/stfs/pkg/mtio"
	"github.com/pojntfx/stfs/pkg/operations"
	"github.com/pojntfx/stfs/pkg/persisters"
	"github.com/pojntfx/stfs/pkg/tape"
	"github.com/spf13/afero"
)

type nolog struct{}

func (nolog) Trace(string, ...interface{})       {}
func (nolog) Debug(string, ...interface{})       {}
func (nolog) Info(string, ...interface{})        {}
func (nolog) Warn(string, ...interface{})        {}
func (nolog) Error(string, ...interface{})       {}
func (nolog) Panic(string, ...interface{})       {}
func (l nolog) With(...interface{}) golog.Logger { return l }

// Cfg is one pipeline configuration of an STFS instance.
type Cfg struct {
	Comp  string `json:"comp"`
	Level string `json:"level"`
	Enc   string `json:"enc"`
	Sig   string `json:"sig"`
	RS    int    `json:"rs"`
	WC    string `json:"wc"` // write cache type: memory | file

	ReadOnly  bool `json:"ro,omitempty"`
	NoWriteBE bool `json:"nowbe,omitempty"` // read-only variant B: writeOps=nil, getFileBuffer=nil, level "" (what `serve http` does)
	TapeMode  bool `json:"tapemode,omitempty"`
	RSA       bool   `json:"rsa,omitempty"`      // OpenPGP recipient with an RSA encryption key (witness of the open finding rsa-recipient-size-mismatch)
	RootProp  string `json:"rootprop,omitempty"` // root proposal handed to Initialize on an empty drive ("" means "/"; "./", "." and "" are the other spellings the project's tests use)
	Foreign   bool `json:"foreign,omitempty"`   // compose with the foreign key set (wrong-key experiments)
	Overwrite bool `json:"overwrite,omitempty"` // drive manager constructed with overwrite=true (what `stfs operation initialize` does): the first writer truncates, no later one may
}

func (c Cfg) String() string {
	n := func(s string) string {
		if s == "" {
			return "none"
		}
		return s
	}
	s := fmt.Sprintf("%s/%s/%s/%s/rs%d/%s", n(c.Comp), n(c.Level), n(c.Enc), n(c.Sig), c.RS, c.WC)
	if c.ReadOnly {
		s += "/ro"
	}
	if c.NoWriteBE {
		s += "/nowbe"
	}
	if c.TapeMode {
		s += "/tapemode"
	}
	if c.Overwrite {
		s += "/overwrite-manager"
	}
	if c.RootProp != "" {
		s += "/root-proposal:" + c.RootProp
	}
	if c.RSA {
		s += "/rsa-recipient"
	}
	return s
}

func PlainCfg() Cfg {
	return Cfg{Level: config.CompressionLevelFastestKey, RS: 20, WC: config.WriteCacheTypeFile}
}

var errInjected = errors.New("verif: injected fault")

// Fault is one armed single fault.
type Fault struct {
	Class  string `json:"class"`            // dwrite | dwrite-short | dread | persist | cache | src | openw | openr | cachenew
	K      int    `json:"k"`                // fires at the K-th (1-based) event of that class counted from Arm()
	Sticky bool   `json:"sticky,omitempty"` // once fired, every later event on the same resource fails too until Disarm
}

type WEv struct {
	Off int64
	Len int
}

var closeFaultCount atomic.Int64 // close faults injected so far in this worker (every second one is produced inside the drive manager)

// Seams observes (and optionally perturbs) everything STFS does through values the caller supplies.
type Seams struct {
	progress atomic.Int64

	mu         sync.Mutex
	cnt        map[string]int
	fault      *Fault
	fired      bool
	stickyHits int
	driveSz    int64
	wlog       []WEv
	logW       bool

	perturb    func(point string) // C11 schedule perturbation; nil otherwise
	persistGor []int64            // goroutine id per persister call (C11 interleaving signature)
	logGor     bool
}

func NewSeams() *Seams { return &Seams{cnt: map[string]int{}} }

func (s *Seams) Progress() int64 { return s.progress.Load() }

func (s *Seams) ResetCounts() {
	s.mu.Lock()
	s.cnt = map[string]int{}
	s.mu.Unlock()
}

func (s *Seams) Counts() map[string]int {
	s.mu.Lock()
	defer s.mu.Unlock()
	out := map[string]int{}
	for k, v := range s.cnt {
		out[k] = v
	}
	return out
}

func (s *Seams) Arm(f *Fault) {
	s.mu.Lock()
	s.fault = f
	s.fired = false
	s.cnt = map[string]int{}
	s.mu.Unlock()
}

func (s *Seams) Disarm() (fired bool) {
	s.mu.Lock()
	defer s.mu.Unlock()
	fired = s.fired
	s.fault = nil
	s.stickyHits = 0
	return
}

// hit records one event; returns errInjected when the armed fault fires on it.
func (s *Seams) hit(class string) error {
	s.progress.Add(1)
	beat()
	s.mu.Lock()
	s.cnt[class]++
	n := s.cnt[class]
	var err error
	if s.fault != nil && !s.fired {
		fc := s.fault.Class
		if fc == "dwrite-short" {
			fc = "dwrite"
		}
		if fc == class && n == s.fault.K {
			s.fired = true
			err = errInjected
		}
	} else if s.fault != nil && s.fired && s.fault.Sticky && faultGroup(class) == faultGroup(s.fault.Class) {
		// a resource that failed once keeps failing for the rest of the call (dead drive, full disk, locked database)
		s.stickyHits++
		err = errInjected
	}
	p := s.perturb
	s.mu.Unlock()
	if p != nil {
		p(class)
	}
	return err
}

// faultGroup names the resource a seam class belongs to.
func faultGroup(class string) string {
	switch class {
	case "dwrite", "dwrite-short", "dread", "openw", "openr", "closew", "closer":
		return "drive"
	case "cache", "cachenew", "cacheclean":
		return "cache"
	case "src", "srcclose":
		return "src"
	}
	return class
}

func (s *Seams) isShort() bool {
	s.mu.Lock()
	defer s.mu.Unlock()
	return s.fault != nil && s.fault.Class == "dwrite-short"
}

func gid() int64 {
	var buf [64]byte
	n := runtime.Stack(buf[:], false)
	f := strings.Fields(string(buf[:n]))
	if len(f) >= 2 {
		v, _ := strconv.ParseInt(f[1], 10, 64)
		return v
	}
	return -1
}

type driveW struct {
	w io.Writer
	s *Seams
}

func (d *driveW) Write(p []byte) (int, error) {
	if err := d.s.hit("dwrite"); err != nil {
		if d.s.isShort() && len(p) > 1 {
			n, _ := d.w.Write(p[:len(p)/2])
			d.s.noteWrite(n)
			return n, err
		}
		return 0, err
	}
	n, err := d.w.Write(p)
	d.s.noteWrite(n)
	return n, err
}

func (s *Seams) noteWrite(n int) {
	s.mu.Lock()
	if s.logW {
		s.wlog = append(s.wlog, WEv{Off: s.driveSz, Len: n})
	}
	s.driveSz += int64(n)
	s.mu.Unlock()
}

type driveR struct {
	r config.ReadSeekFder
	s *Seams
}

func (d *driveR) Read(p []byte) (int, error) {
	if err := d.s.hit("dread"); err != nil {
		return 0, err
	}
	return d.r.Read(p)
}
func (d *driveR) Seek(o int64, w int) (int64, error) { return d.r.Seek(o, w) }
func (d *driveR) Fd() uintptr                        { return d.r.Fd() }

// persistWrap wraps the real metadata persister.
type persistWrap struct {
	p config.MetadataPersister
	s *Seams
}

func (w *persistWrap) pre() error {
	if w.s.logGor {
		g := gid()
		w.s.mu.Lock()
		w.s.persistGor = append(w.s.persistGor, g)
		w.s.mu.Unlock()
	}
	return w.s.hit("persist")
}

func (w *persistWrap) UpsertHeader(ctx context.Context, h *config.Header, init bool) error {
	if err := w.pre(); err != nil {
		return err
	}
	return w.p.UpsertHeader(ctx, h, init)
}
func (w *persistWrap) UpdateHeaderMetadata(ctx context.Context, h *config.Header) error {
	if err := w.pre(); err != nil {
		return err
	}
	return w.p.UpdateHeaderMetadata(ctx, h)
}
func (w *persistWrap) MoveHeader(ctx context.Context, o, n string, r, b int64) error {
	if err := w.pre(); err != nil {
		return err
	}
	return w.p.MoveHeader(ctx, o, n, r, b)
}
func (w *persistWrap) GetHeaders(ctx context.Context) ([]*config.Header, error) {
	if err := w.pre(); err != nil {
		return nil, err
	}
	return w.p.GetHeaders(ctx)
}
func (w *persistWrap) GetHeader(ctx context.Context, n string) (*config.Header, error) {
	if err := w.pre(); err != nil {
		return nil, err
	}
	return w.p.GetHeader(ctx, n)
}
func (w *persistWrap) GetHeaderByLinkname(ctx context.Context, n string) (*config.Header, error) {
	if err := w.pre(); err != nil {
		return nil, err
	}
	return w.p.GetHeaderByLinkname(ctx, n)
}
func (w *persistWrap) GetHeaderChildren(ctx context.Context, n string) ([]*config.Header, error) {
	if err := w.pre(); err != nil {
		return nil, err
	}
	return w.p.GetHeaderChildren(ctx, n)
}
func (w *persistWrap) GetRootPath(ctx context.Context) (string, error) {
	if err := w.pre(); err != nil {
		return "", err
	}
	return w.p.GetRootPath(ctx)
}
func (w *persistWrap) GetHeaderDirectChildren(ctx context.Context, n string, l int) ([]*config.Header, error) {
	if err := w.pre(); err != nil {
		return nil, err
	}
	return w.p.GetHeaderDirectChildren(ctx, n, l)
}
func (w *persistWrap) DeleteHeader(ctx context.Context, n string, r, b int64) (*config.Header, error) {
	if err := w.pre(); err != nil {
		return nil, err
	}
	return w.p.DeleteHeader(ctx, n, r, b)
}
func (w *persistWrap) GetLastIndexedRecordAndBlock(ctx context.Context, rs int) (int64, int64, error) {
	if err := w.pre(); err != nil {
		return 0, 0, err
	}
	return w.p.GetLastIndexedRecordAndBlock(ctx, rs)
}
func (w *persistWrap) PurgeAllHeaders(ctx context.Context) error {
	if err := w.pre(); err != nil {
		return err
	}
	return w.p.PurgeAllHeaders(ctx)
}

type cacheWrap struct {
	c cache.WriteCache
	s *Seams
}

func (c *cacheWrap) Close() error {
	if err := c.s.hit("cache"); err != nil {
		return err
	}
	return c.c.Close()
}
func (c *cacheWrap) Read(p []byte) (int, error) {
	if err := c.s.hit("cache"); err != nil {
		return 0, err
	}
	return c.c.Read(p)
}
func (c *cacheWrap) Seek(o int64, w int) (int64, error) {
	if err := c.s.hit("cache"); err != nil {
		return 0, err
	}
	return c.c.Seek(o, w)
}
func (c *cacheWrap) Write(p []byte) (int, error) {
	if err := c.s.hit("cache"); err != nil {
		return 0, err
	}
	return c.c.Write(p)
}
func (c *cacheWrap) Truncate(n int64) error {
	if err := c.s.hit("cache"); err != nil {
		return err
	}
	return c.c.Truncate(n)
}
func (c *cacheWrap) Size() (int64, error) {
	if err := c.s.hit("cache"); err != nil {
		return 0, err
	}
	return c.c.Size()
}
func (c *cacheWrap) Sync() error {
	if err := c.s.hit("cache"); err != nil {
		return err
	}
	return c.c.Sync()
}

// Rig is one STFS instance composed the way cmd/stfs and examples/ compose it, with all seams installed.
type Rig struct {
	FSCache    string // filesystem cache type of the documented composition ("" = none, "dir", "memory")
	FSCacheDir string
	Intruded   int // bytes appended to the drive by the harness in the middle of a call (ops.go, archive with Flag 1)
	Cfg   Cfg
	Dir   string
	Drive string
	DB    string

	TM    *tape.TapeManager
	MP    *persisters.MetadataPersister
	Meta  config.MetadataConfig
	Pipes config.PipeConfig
	RC    config.CryptoConfig
	rawDrive    io.Closer // the descriptor the drive manager handed out for the operation in progress
	WCr   config.CryptoConfig
	BE    config.BackendConfig
	ROps  *operations.Operations
	WOps  *operations.Operations
	S     *fs.STFS
	FS    afero.Fs
	Root  string
	Seams *Seams

	heldHandle afero.File // a handle kept open across calls (witness histories only)
}

func tapeDir(dir string) string { return filepath.Join(dir, "tape") }

// NewRig composes an instance over dir (drive dir/tape/drive.tar, index dir/index.sqlite). Nothing is initialised yet.
func NewRig(dir string, cfg Cfg) (*Rig, error) {
	if cfg.RS == 0 {
		cfg.RS = 20
	}
	if cfg.WC == "" {
		cfg.WC = config.WriteCacheTypeFile
	}
	if cfg.Level == "" && !cfg.NoWriteBE {
		cfg.Level = config.CompressionLevelFastestKey
	}
	r := &Rig{Cfg: cfg, Dir: dir, Seams: NewSeams()}
	if err := os.MkdirAll(tapeDir(dir), 0o777); err != nil {
		return nil, err
	}
	r.Drive = filepath.Join(tapeDir(dir), "drive.tar")
	r.DB = filepath.Join(dir, "index.sqlite")
	if st, err := os.Stat(r.Drive); err == nil {
		r.Seams.driveSz = st.Size()
	}

	ks := ownKeys
	if cfg.Foreign {
		ks = foreignKeys
	}
	if cfg.RSA {
		ks = rsaKeys
	}
	rc, wc, err := ks.Crypto(cfg.Enc, cfg.Sig)
	if err != nil {
		return nil, err
	}
	r.RC, r.WCr = rc, wc

	mt := mtio.MagneticTapeIO{}
	r.TM = tape.NewTapeManager(r.Drive, mt, cfg.RS, cfg.Overwrite)
	r.MP = persisters.NewMetadataPersister(r.DB)
	if err := r.MP.Open(); err != nil {
		return nil, fmt.Errorf("persister open: %w", err)
	}
	r.Meta = config.MetadataConfig{Metadata: &persistWrap{p: r.MP, s: r.Seams}}
	r.Pipes = config.PipeConfig{Compression: cfg.Comp, Encryption: cfg.Enc, Signature: cfg.Sig, RecordSize: cfg.RS}

	s := r.Seams
	r.BE = config.BackendConfig{
		GetWriter: func() (config.DriveWriterConfig, error) {
			if err := s.hit("openw"); err != nil {
				return config.DriveWriterConfig{}, err
			}
			w, err := r.TM.GetWriter()
			if err != nil {
				return w, err
			}
			if st, e := os.Stat(r.Drive); e == nil {
				s.mu.Lock()
				s.driveSz = st.Size()
				s.mu.Unlock()
			}
			r.rawDrive, _ = w.Drive.(io.Closer)
			w.Drive = &driveW{w: w.Drive, s: s}
			if cfg.TapeMode {
				w.DriveIsRegular = false
			}
			return w, nil
		},
		CloseWriter: func() error {
			// fault model for closing: the drive is closed and released, and the close then reports an error (close(2) returning EIO)
			ferr := s.hit("closew")
			if ferr != nil && closeFaultCount.Load()%2 == 1 && r.rawDrive != nil {
				// every second close fault is produced by the drive manager's OWN close: the descriptor is closed under it, so that
				// its close reports a real error (what close(2) answering EIO looks like from inside)
				_ = r.rawDrive.Close()
			}
			if ferr != nil {
				closeFaultCount.Add(1)
			}
			r.rawDrive = nil
			err := r.TM.Close()
			if ferr != nil {
				return ferr
			}
			return err
		},
		GetReader: func() (config.DriveReaderConfig, error) {
			if err := s.hit("openr"); err != nil {
				return config.DriveReaderConfig{}, err
			}
			rd, err := r.TM.GetReader()
			if err != nil {
				return rd, err
			}
			r.rawDrive, _ = rd.Drive.(io.Closer)
			rd.Drive = &driveR{r: rd.Drive, s: s}
			return rd, nil
		},
		CloseReader: func() error {
			ferr := s.hit("closer")
			if ferr != nil && closeFaultCount.Load()%2 == 1 && r.rawDrive != nil {
				_ = r.rawDrive.Close()
			}
			if ferr != nil {
				closeFaultCount.Add(1)
			}
			r.rawDrive = nil
			err := r.TM.Close()
			if ferr != nil {
				return ferr
			}
			return err
		},
		MagneticTapeIO: mt,
	}

	r.ROps = operations.NewOperations(r.BE, r.Meta, r.Pipes, r.RC, func(*config.HeaderEvent) {})
	getBuf := func() (cache.WriteCache, func() error, error) {
		if err := s.hit("cachenew"); err != nil {
			return nil, nil, err
		}
		c, cl, err := cache.NewCacheWrite(filepath.Join(dir, "wc"), cfg.WC)
		if err != nil {
			return nil, nil, err
		}
		return &cacheWrap{c: c, s: s}, func() error {
			if err := s.hit("cacheclean"); err != nil {
				_ = cl()
				return err
			}
			return cl()
		}, nil
	}
	if cfg.NoWriteBE {
		r.S = fs.NewSTFS(r.ROps, nil, r.Meta, "", nil, true, false, func(*config.Header) {}, nolog{})
	} else {
		r.WOps = operations.NewOperations(r.BE, r.Meta, r.Pipes, r.WCr, func(*config.HeaderEvent) {})
		r.S = fs.NewSTFS(r.ROps, r.WOps, r.Meta, cfg.Level, getBuf, cfg.ReadOnly, false, func(*config.Header) {}, nolog{})
	}
	return r, nil
}

// Init runs the documented open sequence: Initialize("/") then NewCacheFilesystem(root, none).
func (r *Rig) Init() error {
	prop := "/"
	if r.Cfg.RootProp != "" {
		prop = r.Cfg.RootProp
	}
	root, err := r.S.Initialize(prop, os.ModePerm)
	if err != nil {
		return err
	}
	r.Root = root
	ct := config.NoneKey
	if r.FSCache != "" {
		ct = r.FSCache
	}
	f, err := cache.NewCacheFilesystem(r.S, root, ct, time.Hour, r.FSCacheDir)
	if err != nil {
		return err
	}
	r.FS = f
	return nil
}

func (r *Rig) Close() {
	if r.MP != nil {
		_ = r.MP.VerifClose()
	}
}

// OpenDescriptors lists the process's open file descriptors that point below dir (drive file, write-cache files), except the index
// database (one pooled connection per persister by design).
func OpenDescriptors(dir string) []string {
	ents, err := os.ReadDir("/proc/self/fd")
	if err != nil {
		return nil
	}
	var out []string
	for _, e := range ents {
		t, err := os.Readlink("/proc/self/fd/" + e.Name())
		if err != nil || !strings.HasPrefix(t, dir+"/") {
			continue
		}
		if strings.Contains(t, "index.sqlite") {
			continue
		}
		out = append(out, strings.TrimPrefix(t, dir+"/"))
	}
	sort.Strings(out)
	return out
}

// LocksHeld reports which of the instance's locks are held right now (hooks in /repo, tag verif).
func (r *Rig) LocksHeld() []string {
	var out []string
	if r.TM.VerifDriveLockHeld() {
		out = append(out, "drive")
	}
	if r.ROps.VerifOpLockHeld() {
		out = append(out, "readops")
	}
	if r.WOps != nil && r.WOps.VerifOpLockHeld() {
		out = append(out, "writeops")
	}
	if r.S.VerifIOLockHeld() {
		out = append(out, "io")
	}
	return out
}

// LocksSettled waits for the goroutine that streams an open file to finish releasing the drive (File.Read returns as soon as
// the last byte went through the pipe; the restore goroutine closes the reader right after) and then reports the locks held.
func (r *Rig) LocksSettled() []string {
	var held []string
	for i := 0; i < 3000; i++ {
		held = r.LocksHeld()
		if len(held) == 0 {
			return nil
		}
		time.Sleep(time.Millisecond)
	}
	return held
}

// BreakDrive makes OS-level opens of the drive fail until RestoreDrive.
func (r *Rig) BreakDrive() error { return os.Rename(tapeDir(r.Dir), tapeDir(r.Dir)+".away") }

var errBreakUnsupported = errors.New("this way of breaking the drive is not available here")

// BreakDriveMode makes the operating system itself refuse the drive for the duration of a call:
//   - "missing": the directory the drive lives in is gone (ENOENT for every open)
//   - "isdir": the drive path is a directory (open for writing: EISDIR, reads: EISDIR)
//   - "immutable": the drive is write-protected for everybody incl. root (immutable attribute: open for writing EPERM, reads work)
func (r *Rig) BreakDriveMode(mode string) (restore func() error, err error) {
	away := r.Drive + ".away"
	switch mode {
	case "missing":
		if err := r.BreakDrive(); err != nil {
			return nil, err
		}
		return r.RestoreDrive, nil
	case "isdir":
		if err := os.Rename(r.Drive, away); err != nil {
			return nil, err
		}
		if err := os.Mkdir(r.Drive, 0o777); err != nil {
			return nil, err
		}
		return func() error {
			_ = os.RemoveAll(r.Drive)
			return os.Rename(away, r.Drive)
		}, nil
	case "immutable":
		tmp, err := os.MkdirTemp("", "verif-wp")
		if err != nil {
			return nil, errBreakUnsupported
		}
		target := filepath.Join(tmp, "drive.tar")
		if err := copyFile(r.Drive, target); err != nil {
			_ = os.RemoveAll(tmp)
			return nil, err
		}
		if out, err := exec.Command("chattr", "+i", target).CombinedOutput(); err != nil {
			_ = os.RemoveAll(tmp)
			_ = out
			return nil, errBreakUnsupported
		}
		undo := func() error {
			_ = exec.Command("chattr", "-i", target).Run()
			_ = os.Remove(r.Drive)
			err := os.Rename(away, r.Drive)
			_ = os.RemoveAll(tmp)
			return err
		}
		if err := os.Rename(r.Drive, away); err != nil {
			_ = exec.Command("chattr", "-i", target).Run()
			_ = os.RemoveAll(tmp)
			return nil, err
		}
		if err := os.Symlink(target, r.Drive); err != nil {
			_ = undo()
			return nil, err
		}
		if f, err := os.OpenFile(r.Drive, os.O_WRONLY|os.O_APPEND, 0); err == nil {
			_ = f.Close()
			_ = undo()
			return nil, errBreakUnsupported // the attribute does not stop this process
		}
		return undo, nil
	}
	return nil, errBreakUnsupported
}
func (r *Rig) RestoreDrive() error {
	return os.Rename(tapeDir(r.Dir)+".away", tapeDir(r.Dir))
}

func copyFile(src, dst string) error {
	b, err := os.ReadFile(src)
	if err != nil {
		return err
	}
	if err := os.MkdirAll(filepath.Dir(dst), 0o777); err != nil {
		return err
	}
	return os.WriteFile(dst, b, 0o666)
}

// CloneDir copies drive (and index when withIndex) of a rig directory into a new directory.
func CloneDir(src, dst string, withIndex bool) error {
	d := filepath.Join(tapeDir(src), "drive.tar")
	if _, err := os.Stat(d); err == nil {
		if err := copyFile(d, filepath.Join(tapeDir(dst), "drive.tar")); err != nil {
			return err
		}
	} else if err := os.MkdirAll(tapeDir(dst), 0o777); err != nil {
		return err
	}
	if withIndex {
		if err := copyFile(filepath.Join(src, "index.sqlite"), filepath.Join(dst, "index.sqlite")); err != nil {
			return err
		}
	}
	return nil
}
