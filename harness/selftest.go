package main

import "fmt"

// selftest validates the harness's own oracles (reference model vs. the kernel through afero.OsFs, tape scanner vs. archive/tar).
func selftest() int {
	fails := 0
	for _, t := range selfTests {
		if err := t.fn(); err != nil {
			fmt.Printf("SELFTEST FAIL %s: %v\n", t.name, err)
			fails++
		} else {
			fmt.Printf("selftest ok %s\n", t.name)
		}
	}
	if fails > 0 {
		return 2
	}
	return 0
}

type selfTest struct {
	name string
	fn   func() error
}

var selfTests []selfTest
