package main

import (
	"github.com/pojntfx/stfs/pkg/config"
	"github.com/spf13/afero"
	"sort"
	"bytes"
	"encoding/json"
	"fmt"
	"os"
	"strings"
)

// C16: opening a filesystem over an existing tape is non-destructive and faithful.

type openP struct {
	Cfg     Cfg    `json:"cfg"`
	Steps   int    `json:"steps"`
	Witness string `json:"witness,omitempty"`
}

func openCases(prop, tier string, seed uint64) []Case {
	r := newRand(subSeed(seed, prop, tier))
	n := 24
	if tier == "thorough" {
		n = 600
	}
	cfgs := someCfgs(r, 8)
	var cases []Case
	plain := Cfg{Level: "fastest", RS: 20, WC: "file"}
	for _, wn := range []string{"cut-inside-content", "unaligned-cut", "stale-index", "cut-inside-header", "crash-tail-with-session-index"} {
		pb, _ := json.Marshal(openP{Cfg: plain, Steps: 5, Witness: wn})
		cases = append(cases, Case{ID: "c16-witness-" + wn, Seed: 11, Kind: "witness:" + wn, P: pb})
	}
	for i := 0; i < n; i++ {
		oc := cfgs[i%len(cfgs)]
		if i%4 == 3 {
			// the first session names the root the other ways the project's own tests do
			oc.RootProp = []string{"./", "."}[(i/4)%2]
		}
		pb, _ := json.Marshal(openP{Cfg: oc, Steps: 4 + r.Intn(9)})
		cases = append(cases, Case{ID: fmt.Sprintf("c16-%04d", i), Seed: subSeed(seed, prop, tier, fmt.Sprint(i)), Kind: "random", P: pb})
	}
	return cases
}

type openScenario struct {
	L     int64
	Index string // absent | current | stale
	Stale int64  // for stale: the index reflects only the first Stale bytes
	Pad   int    // zero blocks behind the prefix (preallocated / extended images, blocking-factor padding)
	Junk  int    // blocks of non-tar bytes behind the prefix (and behind the zero blocks)
	Link  bool   // the drive path is a symbolic link to the tape file
}

// bytesOf returns the drive content of a scenario.
func (sc openScenario) bytesOf(img []byte, seed uint64) []byte {
	out := append([]byte(nil), img[:sc.L]...)
	if sc.Pad > 0 {
		out = append(out, make([]byte, sc.Pad*512)...)
	}
	if sc.Junk > 0 {
		out = append(out, genContent(sc.Junk*512, "random", seed^uint64(sc.Junk))...)
	}
	return out
}

// scratchState rebuilds an index for tape[:L] in a fresh directory and returns (tree, hasRoot, indexErr).
func scratchState(w *Worker, cfg Cfg, img []byte) (tree Tree, dbPath string, hasRoot bool, ierr error, herr error) {
	d := w.NewDir("c16scratch")
	_ = os.MkdirAll(tapeDir(d), 0o777)
	if err := os.WriteFile(tapeDir(d)+"/drive.tar", img, 0o666); err != nil {
		return nil, "", false, nil, err
	}
	rg, err := NewRig(d, cfg)
	if err != nil {
		return nil, "", false, nil, err
	}
	defer rg.Close()
	ierr = runIndex(rg, true)
	rg.LocksSettled()
	rows, err := DumpRows(rg.DB)
	if err != nil {
		return nil, "", false, ierr, err
	}
	for _, r := range rows {
		if r.Deleted != 1 && normRowName(r.Name) == "/" {
			hasRoot = true
		}
	}
	dbPath = rg.DB
	if hasRoot {
		if err := rg.Init(); err == nil {
			tree, _ = WalkTree(rg.FS, true)
			rg.LocksSettled()
		}
	}
	return tree, dbPath, hasRoot, ierr, nil
}

// mismatchedOpen runs the documented open sequence, index absent, over a tape that has a root but that this instance cannot index
// (torn behind the root, written with other keys or another pipeline). Failing is fine; changing the tape is not.
func mismatchedOpen(w *Worker, cfg Cfg, before []byte, viol func(sig, format string, a ...any), sig, what string) bool {
	d := w.NewDir("c16m")
	_ = os.MkdirAll(tapeDir(d), 0o777)
	drive := tapeDir(d) + "/drive.tar"
	if err := os.WriteFile(drive, before, 0o666); err != nil {
		return true
	}
	rig, err := NewRig(d, cfg)
	if err != nil {
		return true
	}
	defer rig.Close()
	oerr := rig.Init()
	rig.LocksSettled()
	after, _ := os.ReadFile(drive)
	if !bytes.HasPrefix(after, before) {
		viol(sig+"|rewrote-tape", "%s: construct+Initialize (err=%v) removed or rewrote tape content (%d bytes before, %d after)", what, oerr, len(before), len(after))
		return false
	}
	if len(after) != len(before) {
		viol(sig+"|appended-although-root-exists", "%s: Initialize (err=%v) appended %d bytes to a tape that already has a root directory", what, oerr, len(after)-len(before))
		return false
	}
	if sig == "torn" && oerr == nil {
		// the open SUCCEEDED over a tape that a from-scratch rebuild cannot index to its end: then what is written through it
		// afterwards has to be retrievable and has to survive a rebuild, like after any other successful open
		if err := rig.FS.Mkdir("/c16-after-torn-open", 0o755); err != nil {
			viol(sig+"|later-mkdir", "%s, yet Initialize succeeded; Mkdir through the opened filesystem: %v", what, err)
			return false
		}
		rig.LocksSettled()
		if _, err := rig.FS.Stat("/c16-after-torn-open"); err != nil {
			viol(sig+"|later-stat", "%s, yet Initialize succeeded; the directory made through it cannot be stat-ed: %v", what, err)
			return false
		}
		now, _ := os.ReadFile(drive)
		tr, _, _, ierr2, herr := scratchState(w, cfg, now)
		if herr == nil {
			if _, ok := tr["/c16-after-torn-open"]; ierr2 != nil || !ok {
				viol(sig+"|later-lost", "%s, yet Initialize succeeded; the directory made through it does not survive a from-scratch rebuild (rebuild err=%v, present=%v)", what, ierr2, ok)
				return false
			}
		}
	}
	return true
}

func openRun(prop, tier string, c Case, w *Worker) (res Result) {
	var p openP
	_ = json.Unmarshal(c.P, &p)
	kind := c.Kind
	res.setAdd("configs", p.Cfg.String())
	var fixed []Op
	if p.Witness != "" {
		fixed = []Op{{K: "mkdir", A: "/d", Perm: 0o755}, {K: "create", A: "/d/a", Len: 1500, Dist: "text", DSeed: 1}, {K: "create", A: "/y", Len: 300, Dist: "text", DSeed: 2}, {K: "create", A: "/b", Len: 700, Dist: "text", DSeed: 3}}
	}
	t, err := buildTape(w, p.Cfg, c.Seed, p.Steps, 3*512, fixed...)
	if err != nil {
		res.Verdict, res.Msg = "inconclusive", "building the tape: "+err.Error()
		return
	}
	cfg := t.cfg
	var scen []openScenario
	n := int64(len(t.img))
	last := t.recs[len(t.recs)-1]
	switch p.Witness {
	case "":
		for L := int64(0); L <= n; L += 512 {
			scen = append(scen, openScenario{L: L, Index: "absent"}, openScenario{L: L, Index: "current"})
		}
		if n%512 != 0 {
			res.Verdict, res.Msg = "inconclusive", "tape length not aligned"
			return
		}
		// the intact tape with the index file the writing session itself left behind (a restart)
		scen = append(scen, openScenario{L: n, Index: "session"})
		// the drive is named through a symbolic link
		scen = append(scen, openScenario{L: n, Index: "absent", Link: true}, openScenario{L: n, Index: "current", Link: true})
		// tails: zero blocks over several orders of magnitude (a 5000-block tail = a 2.5 MiB preallocated image) and junk,
		// behind the intact tape, behind the tape without its end-of-archive marker and behind one earlier record boundary
		ends := []int64{n}
		if n-1024 >= last.ContentOff+last.ContentLen {
			ends = append(ends, n-1024)
		}
		if len(t.recs) > 2 {
			ends = append(ends, t.recs[len(t.recs)/2].Off)
		}
		for ei, L := range ends {
			pads := []int{1, 2, 3, 7, 64, 5000}
			if ei > 0 {
				pads = []int{3, 5000}
			} else if c.Seed%4 == 0 {
				pads = append(pads, 70000) // a 34 MiB blank tail (every fourth tape; one of 300000 blocks in the thorough tier)
				if tier == "thorough" && c.Seed%16 == 0 {
					pads = append(pads, 300000)
				}
			}
			for _, pad := range pads {
				scen = append(scen, openScenario{L: L, Index: "absent", Pad: pad}, openScenario{L: L, Index: "current", Pad: pad})
			}
			scen = append(scen, openScenario{L: L, Index: "absent", Junk: 1}, openScenario{L: L, Index: "current", Pad: 2, Junk: 5})
		}
	case "cut-inside-content":
		// the last record with content, cut in the middle of its content (aligned)
		for i := len(t.recs) - 1; i >= 0; i-- {
			if t.recs[i].ContentLen > 512 {
				scen = append(scen, openScenario{L: t.recs[i].ContentOff + 512, Index: "absent"})
				break
			}
		}
		if len(scen) == 0 {
			scen = append(scen, openScenario{L: last.ContentOff, Index: "absent"})
		}
	case "cut-inside-header":
		scen = append(scen, openScenario{L: last.Off + 512, Index: "absent"})
	case "unaligned-cut":
		scen = append(scen, openScenario{L: n - 1024 - 100, Index: "absent"})
	case "crash-tail-with-session-index":
		// what a crash in the middle of a write leaves behind: the tape ends inside the content of the record that was being written,
		// and the index file is the one the session had (it reflects every record before that one)
		for i := len(t.recs) - 1; i >= 0; i-- {
			if t.recs[i].ContentLen > 512 {
				scen = append(scen, openScenario{L: t.recs[i].ContentOff + 512, Index: "stale", Stale: t.recs[i].Off})
				break
			}
		}
	case "stale-index":
		// the index is two calls behind the tape (it has not seen /y and /b)
		for _, rc := range t.recs {
			if rc.Inner != nil && rc.Inner.Name == "/y" {
				scen = append(scen, openScenario{L: n, Index: "stale", Stale: rc.Off})
				break
			}
		}
	}
	res.Detail = map[string]any{"cfg": cfg, "ops": t.ops, "tape_len": n}
	checked := 0
	for _, sc := range scen {
		before := sc.bytesOf(t.img, c.Seed)
		desc := fmt.Sprintf("tape cut at %d of %d, index %s", sc.L, n, sc.Index)
		if sc.Pad > 0 || sc.Junk > 0 {
			desc += fmt.Sprintf(", followed by %d zero blocks and %d junk blocks", sc.Pad, sc.Junk)
			res.count("scenarios_with_tail", 1)
		}
		viol := func(sig, format string, a ...any) {
			res.violate("c16|"+kind+"|"+sig, fmt.Sprintf("[%s] %s: ", cfg, desc)+fmt.Sprintf(format, a...))
			res.Detail.(map[string]any)["scenario"] = sc
		}
		note("C16 %s", desc)
		stree, sdb, hasRoot, ierr, herr := scratchState(w, cfg, before)
		if herr != nil {
			res.Verdict, res.Msg = "inconclusive", herr.Error()
			return
		}
		if p.Witness == "" && ierr != nil && hasRoot && sc.Index == "absent" && !sc.Link {
			// a prefix that ends inside a record, so that a from-scratch rebuild fails behind a root it has already seen: opening may
			// fail, but it must leave the tape as it is (nothing removed, nothing appended behind the torn record)
			if !mismatchedOpen(w, cfg, before, viol, "torn", fmt.Sprintf("rebuild fails with %v", ierr)) {
				return
			}
			res.count("torn_prefix_opens_checked", 1)
			continue
		}
		if p.Witness == "" && (ierr != nil || !hasRoot) {
			// a prefix whose from-scratch rebuild fails or has no root: the shapes of the open findings, visited only by their witnesses
			res.count("scenarios_skipped_rebuild_fails_or_no_root", 1)
			continue
		}
		if p.Witness == "" && sc.L == n && sc.Index == "absent" && sc.Pad == 0 && sc.Junk == 0 && !sc.Link {
			// the intact tape opened by an instance that cannot read it: other keys, or another pipeline than the one that wrote it.
			// The tape has a root (the rightful configuration finds it), so nothing may be appended - a record written with the
			// wrong key or codec would make the owner's next rebuild fail
			var others []Cfg
			if cfg.Enc != "" || cfg.Sig != "" {
				o := cfg
				o.Foreign = true
				others = append(others, o)
			}
			o := cfg
			if o.Enc == "" {
				o.Enc = "age"
			} else {
				o.Enc = ""
			}
			others = append(others, o)
			o = cfg
			if o.Comp == "" {
				o.Comp = "gzip"
			} else {
				o.Comp = ""
			}
			others = append(others, o)
			for _, oc := range others {
				if !mismatchedOpen(w, oc, before, viol, "mismatched", "opened as "+oc.String()) {
					return
				}
				res.count("mismatched_configuration_opens_checked", 1)
			}
		}
		d := w.NewDir("c16")
		_ = os.MkdirAll(tapeDir(d), 0o777)
		drive := tapeDir(d) + "/drive.tar"
		if sc.Link {
			real := tapeDir(d) + "/the-real-tape.tar"
			if err := os.WriteFile(real, before, 0o666); err != nil {
				res.Verdict, res.Msg = "inconclusive", err.Error()
				return
			}
			if err := os.Symlink(real, drive); err != nil {
				res.Verdict, res.Msg = "inconclusive", err.Error()
				return
			}
			desc += ", drive path is a symbolic link"
			res.count("scenarios_with_symlinked_drive", 1)
		} else if err := os.WriteFile(drive, before, 0o666); err != nil {
			res.Verdict, res.Msg = "inconclusive", err.Error()
			return
		}
		switch sc.Index {
		case "session":
			if err := copyFile(t.dir+"/index.sqlite", d+"/index.sqlite"); err != nil {
				res.Verdict, res.Msg = "inconclusive", err.Error()
				return
			}
			res.count("scenarios_index_of_the_writing_session", 1)
		case "current":
			if err := copyFile(sdb, d+"/index.sqlite"); err != nil {
				res.Verdict, res.Msg = "inconclusive", err.Error()
				return
			}
		case "stale":
			_, stdb, _, _, herr := scratchState(w, cfg, t.img[:sc.Stale])
			if herr != nil {
				res.Verdict, res.Msg = "inconclusive", herr.Error()
				return
			}
			if err := copyFile(stdb, d+"/index.sqlite"); err != nil {
				res.Verdict, res.Msg = "inconclusive", err.Error()
				return
			}
		}
		rig, err := NewRig(d, cfg)
		if err != nil {
			res.Verdict, res.Msg = "inconclusive", "rig: "+err.Error()
			return
		}
		ok := func() bool {
			defer rig.Close()
			oerr := rig.Init()
			rig.LocksSettled()
			after, _ := os.ReadFile(drive)
			if !bytes.HasPrefix(after, before) {
				viol("rewrote-tape", "construct+Initialize (err=%v) removed or rewrote tape content (%d bytes before, %d after)", oerr, len(before), len(after))
				return false
			}
			if hasRoot && len(after) != len(before) {
				viol("appended-although-root-exists", "Initialize (err=%v) appended %d bytes although a from-scratch rebuild of this tape finds a root directory", oerr, len(after)-len(before))
				return false
			}
			if oerr != nil {
				res.count("opens_failing", 1)
				// failing without touching the tape is allowed by C16 (witness cases included: the cut-inside-content witness fails
				// cleanly since fix e-initialize, see KNOWN_FINDINGS)
				return true
			}
			res.count("opens_ok", 1)
			lt, err := WalkTree(rig.FS, true)
			rig.LocksSettled()
			if err != nil {
				viol("walk", "walking the opened filesystem: %v", err)
				return false
			}
			if stree != nil && !(p.Witness == "crash-tail-with-session-index" && ierr != nil) { // (a rebuild that fails half-way has no tree to compare with)
				if ds := DiffTrees(lt, stree, "opened", "scratch-rebuild", true); len(ds) > 0 {
					viol("differs-from-rebuild", "the opened filesystem differs from a from-scratch rebuild of the same tape: %s", shortList(ds, 5))
					return false
				}
			}
			// entries written afterwards are retrievable and survive a rebuild
			data := genContent(700, "text", uint64(sc.L)+c.Seed)
			name := "/c16-new-file"
			h, err := rig.FS.Create(name)
			if err != nil {
				viol("later-create", "Create after opening: %v", err)
				return false
			}
			if _, err := h.Write(data); err != nil {
				viol("later-write", "Write after opening: %v", err)
				return false
			}
			if err := h.Close(); err != nil {
				viol("later-close", "Close after opening: %v", err)
				return false
			}
			got, err := ReadAllFile(rig.FS, name)
			rig.LocksSettled()
			if err != nil || !bytes.Equal(got, data) {
				viol("later-readback", "the file written after opening reads back err=%v, %d bytes (sum %s), wrote %d (sum %s)", err, len(got), sum(got), len(data), sum(data))
				return false
			}
			if err := rig.FS.Mkdir("/c16-new-dir", 0o750); err != nil {
				viol("later-mkdir", "Mkdir after opening: %v", err)
				return false
			}
			if st, err := rig.FS.Stat("/c16-new-dir"); err != nil || !st.IsDir() {
				viol("later-mkdir-stat", "the directory made after opening: Stat err=%v", err)
				return false
			}
			// rewrite an older file, if there is one
			rewritten := ""
			var olds []string
			for k, v := range lt {
				if v.Kind == "f" && !hasCodecSuffix(k) {
					olds = append(olds, k)
				}
			}
			sort.Strings(olds)
			if len(olds) > 0 {
				rewritten = olds[int(sc.L/512)%len(olds)]
				nd := genContent(333, "text", uint64(sc.L)+c.Seed+1)
				if err := afero.WriteFile(rig.FS, rewritten, nd, 0o644); err != nil {
					viol("later-rewrite", "rewriting %q after opening: %v", rewritten, err)
					return false
				}
				got, err := ReadAllFile(rig.FS, rewritten)
				rig.LocksSettled()
				if err != nil || !bytes.Equal(got, nd) {
					viol("later-rewrite-readback", "%q rewritten after opening reads back err=%v, %d bytes (sum %s), wrote %d (sum %s)", rewritten, err, len(got), sum(got), len(nd), sum(nd))
					return false
				}
				res.count("later_rewrites", 1)
			}
			lt2, err := WalkTree(rig.FS, true)
			rig.LocksSettled()
			if err != nil {
				viol("walk", "walking after the write: %v", err)
				return false
			}
			for k, v := range lt {
				if k == rewritten {
					continue
				}
				if k == "/" {
					// the root's own times may move when children are added
					a, b := v, lt2[k]
					a.Mtime, b.Mtime, a.Atime, b.Atime = 0, 0, 0, 0
					if a != b {
						viol("later-write-disturbed", "writing new entries changed %q: %+v -> %+v", k, v, lt2[k])
						return false
					}
					continue
				}
				if lt2[k] != v {
					viol("later-write-disturbed", "writing a new file changed %q: %+v -> %+v", k, v, lt2[k])
					return false
				}
			}
			img2, _ := os.ReadFile(drive)
			rt, _, _, rerr, herr := scratchState(w, cfg, img2)
			if herr != nil {
				res.Verdict, res.Msg = "inconclusive", herr.Error()
				return false
			}
			if rerr != nil {
				viol("later-rebuild-error", "rebuilding the tape after the write fails: %v", rerr)
				return false
			}
			if ds := DiffTrees(lt2, rt, "live", "rebuilt", true); len(ds) > 0 {
				viol("later-rebuild-differs", "after a rebuild the file written after opening (or an older entry) differs: %s", shortList(ds, 5))
				return false
			}
			return true
		}()
		if !ok {
			return
		}
		checked++
		res.count("scenarios_checked", 1)
		res.count("scenarios_index_"+sc.Index, 1)
	}
	// the documented composition with the directory cache (what `stfs serve ftp` uses), over a cache directory that an earlier session -
	// over an earlier state of the tape - left behind: the opened filesystem still has to show what a rebuild of THIS tape shows
	if p.Witness == "" && len(t.recs) >= 4 {
		early := t.recs[len(t.recs)/2].Off
		if etree, _, eroot, eerr, _ := scratchState(w, cfg, t.img[:early]); eerr == nil && eroot && etree != nil {
			if ftree, _, froot, ferr, _ := scratchState(w, cfg, t.img); ferr == nil && froot && ftree != nil {
				cacheDir := w.NewDir("c16cache") + "/filesystem"
				session := func(img []byte, tag string) (Tree, error) {
					d := w.NewDir("c16s" + tag)
					_ = os.MkdirAll(tapeDir(d), 0o777)
					if err := os.WriteFile(tapeDir(d)+"/drive.tar", img, 0o666); err != nil {
						return nil, fmt.Errorf("harness: %w", err)
					}
					rg, err := NewRig(d, cfg)
					if err != nil {
						return nil, fmt.Errorf("harness: %w", err)
					}
					defer rg.Close()
					rg.FSCache, rg.FSCacheDir = config.FileSystemCacheTypeDir, cacheDir
					if err := rg.Init(); err != nil {
						return nil, err
					}
					tr, err := WalkTree(rg.FS, true)
					rg.LocksSettled()
					return tr, err
				}
				if _, err := session(t.img[:early], "1"); err == nil {
					got, err := session(t.img, "2")
					desc := fmt.Sprintf("[%s] tape of %d bytes opened through the directory-cache composition with the cache directory of an earlier session (tape as of byte %d): ", cfg, n, early)
					if err != nil {
						if !strings.HasPrefix(err.Error(), "harness:") {
							res.violate("c16|"+kind+"|cached-composition|open", desc+err.Error())
							return
						}
					} else if ds := DiffTrees(got, ftree, "opened", "scratch-rebuild", true); len(ds) > 0 {
						res.violate("c16|"+kind+"|cached-composition|differs", desc+"differs from a from-scratch rebuild: "+shortList(ds, 5))
						return
					} else {
						res.count("cached_composition_reopens", 1)
					}
				}
			}
		}
	}
	res.NonTrivial = checked >= 6 && len(t.recs) >= 4
	if p.Witness != "" {
		res.NonTrivial = true
	}
	res.Key = sum(t.img)
	res.Detail = nil
	res.Sample = map[string]any{"cfg": cfg.String(), "ops": t.ops, "tape_bytes": n, "scenarios": len(scen), "checked": checked, "counters": res.Counters}
	if p.Witness != "" {
		res.Sample.(map[string]any)["scenario"] = scen
		fmt.Fprintf(os.Stderr, "WITNESS %s scen=%+v counters=%v records=%d\n", p.Witness, scen, res.Counters, len(t.recs))
	}
	_ = strings.Join
	return
}

func init() {
	register(&Engine{Name: "opens", Props: []string{"C16"}, Cases: openCases, Run: openRun})
	propMeta["C16"] = PropMeta{Level: "fault_enumeration",
		Rule:        "per case a tape is produced by a generated history; for EVERY block-aligned prefix length (0, 512, ..., len) whose from-scratch rebuild succeeds and finds a root, combined with the index absent and with the index current for that prefix (the intact tape also through a drive path that is a symbolic link), plus tails behind the intact tape / the tape without end-of-archive marker / an earlier record boundary (1, 2, 3, 7, 64, 5000 and on every fourth tape 70000 zero blocks; junk blocks; zero then junk): construct + Initialize; the drive file must keep its bytes as a prefix and must not grow; on success the walked tree must equal the tree of a from-scratch recovery.Index of the same bytes; a file then written through the instance, a directory made and an older file rewritten must read back byte-exactly, must not disturb older entries and must be present with the same content after another from-scratch rebuild; prefixes that cut inside a record's content or header, unaligned prefixes and stale indexes are the shapes of three open findings and are visited by their witness cases only; non-trivial = at least 6 scenarios checked on a tape of at least 4 records; distinct = distinct tape; per case one open through the directory-cache composition (`serve ftp`) over the cache directory an earlier session - over an earlier state of the tape - left behind; prefixes that end inside a record behind a root and the intact tape opened with other keys / another pipeline (opening may fail, the tape must stay as it is; if opening a torn prefix succeeds, a directory made through it must be stat-able and survive a from-scratch rebuild); every fourth tape was initialised with the root proposal './' or '.'; the intact tape is also opened with the index file the writing session left behind",
		Assumptions: []string{"'current' index = the index a from-scratch rebuild of that prefix produces"}}
}
