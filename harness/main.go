package main

import (
	"encoding/json"
	"fmt"
	"hash/fnv"
	"math/rand"
	"os"
	"strconv"
	"syscall"
)

func subSeed(seed uint64, parts ...string) uint64 {
	h := fnv.New64a()
	fmt.Fprintf(h, "%d", seed)
	for _, p := range parts {
		h.Write([]byte{0})
		h.Write([]byte(p))
	}
	return h.Sum64()
}

func newRand(seed uint64) *rand.Rand { return rand.New(rand.NewSource(int64(seed))) }

func envSeed() uint64 {
	if v := os.Getenv("VERIF_SEED"); v != "" {
		if n, err := strconv.ParseUint(v, 10, 64); err == nil {
			return n
		}
	}
	return 1
}

func usage() {
	fmt.Fprintln(os.Stderr, "usage: vcheck <C01..C18> [quick|thorough] | vcheck replay <file> | vcheck selftest")
	os.Exit(2)
}

func main() {
	syscall.Umask(0) // the kernel-side reference (afero.OsFs) must not mask Create's 0666
	if len(os.Args) < 2 {
		usage()
	}
	switch os.Args[1] {
	case "worker":
		// worker prop tier casesPath outPath scratch shard of skipPath
		a := os.Args[2:]
		if len(a) < 8 {
			usage()
		}
		shard, _ := strconv.Atoi(a[5])
		of, _ := strconv.Atoi(a[6])
		skip := map[string]bool{}
		if b, err := os.ReadFile(a[7]); err == nil {
			_ = json.Unmarshal(b, &skip)
		}
		os.Exit(runWorker(a[0], a[1], a[2], a[3], a[4], shard, of, skip))
	case "replay":
		if len(os.Args) < 3 {
			usage()
		}
		os.Exit(replay(os.Args[2]))
	case "padprobe":
		padprobe()
		os.Exit(0)
	case "selftest":
		os.Exit(selftest())
	case "dump":
		// dump <rigdir> [rs]: rows + independent tape scan (plain tapes only)
		rs := 20
		if len(os.Args) > 3 {
			rs, _ = strconv.Atoi(os.Args[3])
		}
		rows, err := DumpRows(os.Args[2] + "/index.sqlite")
		fmt.Println("rows err:", err)
		for _, r := range rows {
			fmt.Printf("  rec=%d blk=%d last=%d/%d del=%d type=%c name=%q link=%q size=%d\n", r.Record, r.Block, r.LastRecord, r.LastBlock, r.Deleted, rune(r.Typeflag), r.Name, r.Linkname, r.Size)
		}
		img, _ := os.ReadFile(os.Args[2] + "/tape/drive.tar")
		recs, end, err := ScanTape(img, Cfg{}, nil)
		fmt.Println("scan end:", end, "len:", len(img), "err:", err)
		for _, r := range recs {
			blk := r.Off / 512
			fmt.Printf("  %s (rec=%d blk=%d) size=%d\n", describeRec(r), blk/int64(rs), blk%int64(rs), r.ContentLen)
		}
		os.Exit(0)
	default:
		prop := os.Args[1]
		tier := os.Getenv("VERIF_TIER")
		if len(os.Args) >= 3 {
			tier = os.Args[2]
		}
		if tier != "thorough" {
			tier = "quick"
		}
		os.Exit(orchestrate(prop, tier, envSeed()))
	}
}

func replay(p string) int {
	b, err := os.ReadFile(p)
	if err != nil {
		fmt.Fprintln(os.Stderr, err)
		return 2
	}
	var rep struct {
		Property string `json:"property"`
		Tier     string `json:"tier"`
		Case     Case   `json:"case"`
	}
	if err := json.Unmarshal(b, &rep); err != nil {
		fmt.Fprintln(os.Stderr, err)
		return 2
	}
	e := engines[rep.Property]
	if e == nil {
		fmt.Fprintln(os.Stderr, "unknown property", rep.Property)
		return 2
	}
	scratch, _ := os.MkdirTemp("", "verif-replay-")
	if os.Getenv("VERIF_KEEP") != "" {
		fmt.Fprintln(os.Stderr, "keeping scratch", scratch)
	} else {
		defer os.RemoveAll(scratch)
	}
	w := &Worker{Scratch: scratch, Tier: rep.Tier, Prop: rep.Property}
	w.SetStall(defaultStall(rep.Tier))
	r := e.Run(rep.Property, rep.Tier, rep.Case, w)
	r.Case = rep.Case.ID
	if r.Verdict == "" {
		r.Verdict = "ok"
	}
	jb, _ := json.MarshalIndent(r, "", " ")
	fmt.Println(string(jb))
	if r.Verdict == "violation" {
		fmt.Printf("VIOLATION property=%s replay=%s\n", rep.Property, p)
		return 1
	}
	return 0
}
