package main

import (
	"archive/tar"
	"bytes"
	"encoding/json"
	"fmt"
	"io"
	"strings"
	"time"

	"github.com/pojntfx/stfs/pkg/config"
	"github.com/pojntfx/stfs/pkg/encryption"
	"github.com/pojntfx/stfs/pkg/keys"
	"github.com/pojntfx/stfs/pkg/signature"
	"github.com/pojntfx/stfs/pkg/utility"
)

// C18: generated keys work, and only with the right password.

type keyP struct {
	Role   string `json:"role"` // enc | sig
	Format string `json:"format"`
	PwKind string `json:"pw"`
	Rep    int    `json:"rep"`
}

func passwordOf(kind string, seed uint64) string {
	switch kind {
	case "empty":
		return ""
	case "ascii":
		return fmt.Sprintf("hunter2-%d", seed%1000)
	case "unicode":
		return "pässwörd☃ " + fmt.Sprint(seed%97)
	case "long":
		return strings.Repeat("long-password-0123456789-", 12) // 300 bytes
	case "ws":
		return " \tlead and trail \n"
	case "nul":
		return "ab\x00cd"
	case "long73":
		return strings.Repeat("x", 72) + "Y" // one byte beyond bcrypt-style truncation
	case "long1100":
		return strings.Repeat("0123456789", 110)
	case "badutf8":
		return "\xff\xfeabc\x80"
	case "nfd":
		return "cafe\u0301" // decomposed form; the composed form must not open it
	case "mixedcase":
		return "MiXeD-CaSe-PaSs"
	}
	return "x"
}

func keyCases(prop, tier string, seed uint64) []Case {
	var cases []Case
	add := func(role, format, pw string, rep int) {
		p := keyP{Role: role, Format: format, PwKind: pw, Rep: rep}
		pb, _ := json.Marshal(p)
		id := fmt.Sprintf("c18-%s-%s-%s-%d", role, format, pw, rep)
		cases = append(cases, Case{ID: id, Seed: subSeed(seed, prop, tier, id), Kind: "random", P: pb})
	}
	pws := []string{"empty", "ascii", "unicode", "long"}
	// further password classes on the formats that do not cost seconds of scrypt per operation
	for _, pw := range []string{"ws", "nul", "long73", "long1100", "badutf8", "nfd", "mixedcase"} {
		add("enc", "pgp", pw, 0)
		add("sig", "pgp", pw, 0)
		if tier == "thorough" {
			add("enc", "age", pw, 0)
		}
	}
	reps := 2
	msPws := []string{"empty", "unicode"} // minisign: ~7 s of scrypt per keygen/parse
	if tier == "thorough" {
		reps = 12
		msPws = pws
	}
	for _, pw := range pws {
		for r := 0; r < reps; r++ {
			add("enc", "pgp", pw, r)
			add("sig", "pgp", pw, r)
		}
		ar := 1
		if tier == "thorough" || pw == "empty" {
			ar = 2
		}
		for r := 0; r < ar; r++ {
			add("enc", "age", pw, r) // age + password: scrypt
		}
	}
	for i, pw := range msPws {
		add("sig", "minisign", pw, 0)
		if tier == "thorough" {
			add("sig", "minisign", pw, 1+i)
		}
	}
	return cases
}

type pair struct {
	priv, pub []byte
	pw        string
}

func keyRun(prop, tier string, c Case, w *Worker) (res Result) {
	var p keyP
	_ = json.Unmarshal(c.P, &p)
	w.SetStall(900) // scrypt-based KDFs: seconds per call and ~1 GiB, slower when 16 workers share the machine
	defer w.SetStall(defaultStall(tier))
	desc := fmt.Sprintf("%s/%s password=%s", p.Role, p.Format, p.PwKind)
	res.setAdd("format_password", desc)
	viol := func(sig, format string, a ...any) {
		res.violate("c18|"+p.Role+"|"+p.Format+"|"+p.PwKind+"|"+sig, "["+desc+"] "+fmt.Sprintf(format, a...))
		res.Detail = map[string]any{"case": p}
	}
	pipes := config.PipeConfig{}
	if p.Role == "enc" {
		pipes.Encryption = p.Format
	} else {
		pipes.Signature = p.Format
	}
	gen := func(pw string) (pair, error) {
		beat()
		priv, pub, err := utility.Keygen(pipes, config.PasswordConfig{Password: pw})
		beat()
		return pair{priv, pub, pw}, err
	}
	pw1 := passwordOf(p.PwKind, c.Seed)
	k1, err := gen(pw1)
	if err != nil {
		viol("keygen", "Keygen failed: %v", err)
		return
	}
	k2, err := gen(passwordOf("ascii", c.Seed+1))
	if err != nil {
		viol("keygen", "Keygen (second pair) failed: %v", err)
		return
	}
	res.count("pairs_generated", 2)
	wrongs := []string{pw1 + "x", "other"}
	if pw1 != "" {
		wrongs = append(wrongs, "")
	}
	for _, cand := range []string{pw1 + " ", pw1 + "\x00", strings.ToUpper(pw1), strings.ToLower(pw1), strings.TrimSpace(pw1), strings.ReplaceAll(pw1, "e\u0301", "\u00e9")} {
		if cand != pw1 {
			wrongs = append(wrongs, cand)
		}
	}
	if len(pw1) > 1 {
		wrongs = append(wrongs, pw1[:len(pw1)-1], pw1[1:])
	}
	if len(pw1) > 72 {
		wrongs = append(wrongs, pw1[:72])
	}
	if p.Format == "minisign" || (p.Format == "age" && pw1 != "") {
		wrongs = wrongs[:2+btoi(pw1 != "")] // every attempt costs seconds of scrypt here
	}
	msg := genContent([]int{3000 + int(c.Seed%500), 0, 65536, 1<<20 + 1, 1}[int(c.Seed/7)%5], "text", c.Seed)
	// the string variants carry embedded headers: from a couple of hundred bytes to beyond every chunk size of the codecs (64 KiB age chunks)
	str := "embedded header\nsecond line \r\nthird\tline\x00\xff \n" + string(genContent([]int{200, 65520, 65521, 200000, 1 << 20}[int(c.Seed/11)%5], "text", c.Seed+9))
	res.setAdd("string_sizes", fmt.Sprint(len(str)))
	if p.Role == "enc" {
		rcp1, err := keys.ParseRecipient(p.Format, k1.pub)
		if err != nil {
			viol("parse-recipient", "ParseRecipient of a fresh public key failed: %v", err)
			return
		}
		beat()
		id1, err := keys.ParseIdentity(p.Format, k1.priv, k1.pw)
		beat()
		if err != nil {
			viol("parse-identity", "ParseIdentity of a fresh private key with its own password failed: %v", err)
			return
		}
		for _, wp := range wrongs {
			beat()
			if _, err := keys.ParseIdentity(p.Format, k1.priv, wp); err == nil {
				viol("wrong-password-accepted", "ParseIdentity accepted the private key with a different password (%d bytes instead of %d)", len(wp), len(k1.pw))
				return
			}
			beat()
			res.count("wrong_passwords_rejected", 1)
		}
		id2, err := keys.ParseIdentity(p.Format, k2.priv, k2.pw)
		if err != nil {
			viol("parse-identity", "ParseIdentity (second pair): %v", err)
			return
		}
		// string variant
		ct, err := encryption.EncryptString(str, p.Format, rcp1)
		if err != nil {
			viol("encrypt-string", "EncryptString: %v", err)
			return
		}
		pt, err := encryption.DecryptString(ct, p.Format, id1)
		if err != nil || pt != str {
			viol("decrypt-string", "DecryptString with the matching private key: err=%v equal=%v", err, pt == str)
			return
		}
		if pt2, err := encryption.DecryptString(ct, p.Format, id2); err == nil {
			viol("foreign-pair-decrypts", "DecryptString succeeded with another pair's private key (equal=%v)", pt2 == str)
			return
		}
		// stream variant
		var buf bytes.Buffer
		ew, err := encryption.Encrypt(&buf, p.Format, rcp1)
		if err != nil {
			viol("encrypt-stream", "Encrypt: %v", err)
			return
		}
		if _, err := ew.Write(msg); err != nil {
			viol("encrypt-stream", "Encrypt write: %v", err)
			return
		}
		if err := ew.Close(); err != nil {
			viol("encrypt-stream", "Encrypt close: %v", err)
			return
		}
		if len(msg) >= 64 && bytes.Contains(buf.Bytes(), msg[:64]) {
			viol("plaintext-in-ciphertext", "ciphertext contains the plaintext")
			return
		}
		dr, err := encryption.Decrypt(bytes.NewReader(buf.Bytes()), p.Format, id1)
		if err != nil {
			viol("decrypt-stream", "Decrypt with the matching private key: %v", err)
			return
		}
		got, err := io.ReadAll(dr)
		if err != nil || !bytes.Equal(got, msg) {
			viol("decrypt-stream", "Decrypt stream: err=%v equal=%v", err, bytes.Equal(got, msg))
			return
		}
		if dr2, err := encryption.Decrypt(bytes.NewReader(buf.Bytes()), p.Format, id2); err == nil {
			if g2, err := io.ReadAll(dr2); err == nil {
				viol("foreign-pair-decrypts", "Decrypt stream succeeded with another pair's private key (equal=%v)", bytes.Equal(g2, msg))
				return
			}
		}
		// header variant
		hdr := &tar.Header{Name: "secret-name.txt", Size: 42, Mode: 0o600, ModTime: time.Unix(1700000000, 0), Format: tar.FormatPAX, PAXRecords: map[string]string{"STFS.Action": "CREATE"}}
		h2 := *hdr
		if err := encryption.EncryptHeader(&h2, p.Format, rcp1); err != nil {
			viol("encrypt-header", "EncryptHeader: %v", err)
			return
		}
		if h2.Name != "" || strings.Contains(fmt.Sprint(h2.PAXRecords), "secret-name") {
			viol("header-leak", "encrypted header still shows the name")
			return
		}
		if err := encryption.DecryptHeader(&h2, p.Format, id1); err != nil || h2.Name != hdr.Name || h2.Size != hdr.Size {
			viol("decrypt-header", "DecryptHeader: err=%v name=%q", err, h2.Name)
			return
		}
		res.count("roundtrips", 3)
	} else {
		rcp1, err := keys.ParseSignerRecipient(p.Format, k1.pub)
		if err != nil {
			viol("parse-recipient", "ParseSignerRecipient of a fresh public key failed: %v", err)
			return
		}
		beat()
		id1, err := keys.ParseSignerIdentity(p.Format, k1.priv, k1.pw)
		beat()
		if err != nil {
			viol("parse-identity", "ParseSignerIdentity of a fresh private key with its own password failed: %v", err)
			return
		}
		for _, wp := range wrongs {
			beat()
			if _, err := keys.ParseSignerIdentity(p.Format, k1.priv, wp); err == nil {
				viol("wrong-password-accepted", "ParseSignerIdentity accepted the private key with a different password (%d bytes instead of %d)", len(wp), len(k1.pw))
				return
			}
			beat()
			res.count("wrong_passwords_rejected", 1)
		}
		rcp2, err := keys.ParseSignerRecipient(p.Format, k2.pub)
		if err != nil {
			viol("parse-recipient", "ParseSignerRecipient (second pair): %v", err)
			return
		}
		sg, err := signature.SignString(str, true, p.Format, id1)
		if err != nil {
			viol("sign-string", "SignString: %v", err)
			return
		}
		if err := signature.VerifyString(str, true, p.Format, rcp1, sg); err != nil {
			viol("verify-string", "VerifyString with the matching public key: %v", err)
			return
		}
		if err := signature.VerifyString(str+"!", true, p.Format, rcp1, sg); err == nil {
			viol("altered-verifies", "VerifyString accepted an altered string")
			return
		}
		if err := signature.VerifyString(str, true, p.Format, rcp2, sg); err == nil {
			viol("foreign-pair-verifies", "VerifyString succeeded with another pair's public key")
			return
		}
		// stream variant
		sr, sign, err := signature.Sign(bytes.NewReader(msg), true, p.Format, id1)
		if err != nil {
			viol("sign-stream", "Sign: %v", err)
			return
		}
		if _, err := io.Copy(io.Discard, sr); err != nil {
			viol("sign-stream", "Sign copy: %v", err)
			return
		}
		ssig, err := sign()
		if err != nil {
			viol("sign-stream", "sign(): %v", err)
			return
		}
		vcheck := func(data []byte, rcp interface{}) error {
			vr, verify, err := signature.Verify(bytes.NewReader(data), true, p.Format, rcp, ssig)
			if err != nil {
				return err
			}
			if _, err := io.Copy(io.Discard, vr); err != nil {
				return err
			}
			return verify()
		}
		if err := vcheck(msg, rcp1); err != nil {
			viol("verify-stream", "Verify stream with the matching public key: %v", err)
			return
		}
		var alts [][]byte
		if len(msg) > 0 {
			a1 := append([]byte(nil), msg...)
			a1[len(a1)/2] ^= 1
			a2 := append([]byte(nil), msg...)
			a2[len(a2)-1] ^= 0x80
			alts = append(alts, a1, a2, msg[:len(msg)/2])
		}
		alts = append(alts, append(append([]byte(nil), msg...), 'x'))
		for ai, alt := range alts {
			if err := vcheck(alt, rcp1); err == nil {
				viol("altered-verifies", "Verify stream accepted altered content (variant %d: middle byte / last byte / truncated / appended)", ai)
				return
			}
		}
		if err := vcheck(msg, rcp2); err == nil {
			viol("foreign-pair-verifies", "Verify stream succeeded with another pair's public key")
			return
		}
		// header variant
		hdr := &tar.Header{Name: "signed-name.txt", Size: 42, Mode: 0o600, ModTime: time.Unix(1700000000, 0), Format: tar.FormatPAX, PAXRecords: map[string]string{"STFS.Action": "CREATE"}}
		h2 := *hdr
		if err := signature.SignHeader(&h2, true, p.Format, id1); err != nil {
			viol("sign-header", "SignHeader: %v", err)
			return
		}
		h3 := h2
		h3.PAXRecords = map[string]string{}
		for k, v := range h2.PAXRecords {
			h3.PAXRecords[k] = v
		}
		if err := signature.VerifyHeader(&h2, true, p.Format, rcp1); err != nil || h2.Name != hdr.Name {
			viol("verify-header", "VerifyHeader with the matching public key: err=%v name=%q", err, h2.Name)
			return
		}
		if err := signature.VerifyHeader(&h3, true, p.Format, rcp2); err == nil {
			viol("foreign-pair-verifies", "VerifyHeader succeeded with another pair's public key")
			return
		}
		res.count("roundtrips", 3)
	}
	res.NonTrivial = true
	res.Key = c.ID
	res.Sample = map[string]any{"role": p.Role, "format": p.Format, "password_kind": p.PwKind, "password_bytes": len(pw1), "wrong_passwords_tried": len(wrongs)}
	return
}

func init() {
	register(&Engine{Name: "keys", Props: []string{"C18"}, Cases: keyCases, Run: keyRun})
	propMeta["C18"] = PropMeta{Level: "exploration",
		Rule:        "per case two key pairs are generated with utility.Keygen for one (role, format) in {encryption: age, pgp; signature: minisign, pgp} and one password kind (empty, ASCII, non-ASCII, 300 bytes); the pair must parse with its password, string / stream / header variants must round-trip under the matching halves, parsing the private half with 2-3 different passwords (longer, unrelated, empty) must fail, and data of pair 1 must not decrypt / verify under pair 2 (nor altered data verify); every case is non-trivial; distinct = distinct (role, format, password kind, repetition); the string variants (embedded headers) are round-tripped with 216, 65536, 65537, 200016 and 1048592 bytes",
		Assumptions: []string{"minisign and age-with-password go through scrypt (seconds and ~1 GiB per call), so quick covers 2 minisign password kinds and thorough all 4"}}
}

func btoi(b bool) int {
	if b {
		return 1
	}
	return 0
}
