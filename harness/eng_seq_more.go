package main

import (
	"path/filepath"
	"os/exec"
	"archive/tar"
	"bytes"
	"context"
	"encoding/json"
	"fmt"
	"os"
	"strings"

	"github.com/pojntfx/stfs/pkg/config"
	"github.com/pojntfx/stfs/pkg/encryption"
	"github.com/pojntfx/stfs/pkg/recovery"
	"github.com/pojntfx/stfs/pkg/signature"
)

// runIndex runs the indexer over the rig's tape into the rig's index the way `stfs recovery index` and Initialize do.
func runIndex(r *Rig, overwrite bool) error {
	stepBegin()
	rd, err := r.BE.GetReader()
	if err != nil {
		return err
	}
	defer r.BE.CloseReader()
	return recovery.Index(rd, r.BE.MagneticTapeIO, r.Meta, r.Pipes, r.RC, 0, 0, overwrite, false, 0,
		func(hdr *tar.Header, i int) error {
			return encryption.DecryptHeader(hdr, r.Pipes.Encryption, r.RC.Identity)
		},
		func(hdr *tar.Header, isRegular bool) error {
			return signature.VerifyHeader(hdr, isRegular, r.Pipes.Signature, r.RC.Recipient)
		},
		func(*config.Header) {})
}

type c04State struct{}

func (h *hist) c04Check(op Op, out Outcome, st *c04State) bool {
	rows, err := DumpRows(h.rig.DB)
	if err != nil {
		h.res.Verdict, h.res.Msg = "inconclusive", "row dump: "+err.Error()
		return false
	}
	img, err := os.ReadFile(h.rig.Drive)
	if err != nil {
		h.res.Verdict, h.res.Msg = "inconclusive", err.Error()
		return false
	}
	recs, _, err := ScanTape(img, h.cfg, &cryptoView{EncIdentity: h.rig.RC.Identity})
	if err != nil {
		h.res.count("histories_cut_by_scan_error", 1) // C05's subject
		return false
	}
	offs := map[int64]bool{}
	for _, rc := range recs {
		offs[rc.Off] = true
	}
	st8 := Interpret(recs, h.cfg, len(recs))
	byNorm := map[string]*RNode{}
	for k, n := range st8 {
		byNorm[normRowName(k)] = n
	}
	rs := int64(h.cfg.RS)
	live, _ := liveRowPaths(rows)
	for _, r := range rows {
		if r.Deleted == 1 {
			continue
		}
		p := normRowName(r.Name)
		if r.Block >= rs || r.Block < 0 || r.LastBlock >= rs || r.LastBlock < 0 {
			h.violate("block-range", "row %q has block %d / last-known block %d with record size %d", r.Name, r.Block, r.LastBlock, rs)
			return false
		}
		off := (r.Record*rs + r.Block) * 512
		if !offs[off] {
			h.violate("not-a-record", "row %q points at %d/%d (byte %d), which is not the start of a record on the tape", r.Name, r.Record, r.Block, off)
			return false
		}
		last := (r.LastRecord*rs + r.LastBlock) * 512
		if last < off {
			h.violate("lastknown-before-content", "row %q: last-known position %d/%d is before its content position %d/%d", r.Name, r.LastRecord, r.LastBlock, r.Record, r.Block)
			return false
		}
		if !offs[last] {
			h.violate("lastknown-not-a-record", "row %q: last-known position %d/%d is not the start of a record", r.Name, r.LastRecord, r.LastBlock)
			return false
		}
		if n, ok := byNorm[p]; ok && r.Linkname == "" {
			if n.ContentOff != off {
				h.violate("wrong-record", "row %q points at byte %d but its content was last written by the record at byte %d", r.Name, off, n.ContentOff)
				return false
			}
		}
		h.res.count("positions_checked", 1)
	}
	for p, e := range h.tree {
		if e.Kind != "f" {
			continue
		}
		r, ok := live[p]
		if !ok {
			continue
		}
		fb, err := fetchBytes(h.rig, r.Record, r.Block)
		if err != nil {
			h.violate("fetch-error", "Fetch at the position of %q (%d/%d) failed: %v", p, r.Record, r.Block, err)
			return false
		}
		want := e.Sum
		wantLen := e.RdLen
		src := "file read"
		if h.inSync {
			if n, ok := h.model.N[p]; ok && !n.Dir {
				want, wantLen, src = sum(n.Data), int64(len(n.Data)), "reference"
			}
		}
		if sum(fb) != want || int64(len(fb)) != wantLen {
			h.violate("fetch-bytes", "Fetch at the position of %q (%d/%d) returns %d bytes (sum %s), %s has %d bytes (sum %s)", p, r.Record, r.Block, len(fb), sum(fb), src, wantLen, want)
			return false
		}
		h.res.count("fetches_compared", 1)
	}
	if len(recs) > 0 {
		lr, lb, err := h.rig.MP.GetLastIndexedRecordAndBlock(context.Background(), h.cfg.RS)
		if err != nil {
			h.violate("lastindexed-error", "GetLastIndexedRecordAndBlock: %v", err)
			return false
		}
		if got, want := (lr*rs+lb)*512, recs[len(recs)-1].Off; got != want {
			h.violate("lastindexed", "index reports %d/%d (byte %d) as last written, the final record on the tape starts at byte %d", lr, lb, got, want)
			return false
		}
	}
	// recovery.Query from the start must report the same positions as the independent scan
	if h.step%4 == 0 {
		h.rig.LocksSettled()
		rd, err := h.rig.BE.GetReader()
		if err != nil {
			h.violate("query-open", "GetReader: %v", err)
			return false
		}
		var qoffs []int64
		_, qerr := recovery.Query(rd, h.rig.BE.MagneticTapeIO, h.rig.Pipes, h.rig.RC, 0, 0, func(hd *config.Header) {
			qoffs = append(qoffs, (hd.Record*rs+hd.Block)*512)
		})
		h.rig.BE.CloseReader()
		if qerr != nil {
			h.violate("query-error", "recovery.Query(0,0): %v", qerr)
			return false
		}
		var soffs []int64
		for _, rc := range recs {
			soffs = append(soffs, rc.Off)
		}
		if fmt.Sprint(qoffs) != fmt.Sprint(soffs) {
			h.violate("query-positions", "recovery.Query positions %v differ from the tar scan's %v", qoffs, soffs)
			return false
		}
		h.res.count("queries_compared", 1)
	}
	return true
}

// c07Check: replay into a full / prefix index == rebuild from scratch, twice == once.
func (h *hist) c07Check() {
	img, err := os.ReadFile(h.rig.Drive)
	if err != nil {
		h.res.Verdict, h.res.Msg = "inconclusive", err.Error()
		return
	}
	recs, _, err := ScanTape(img, h.cfg, &cryptoView{EncIdentity: h.rig.RC.Identity})
	if err != nil {
		h.res.count("histories_cut_by_scan_error", 1)
		return
	}
	ref, err := walkVia(h.w, h.cfg, h.rig.Dir, false, "c07ref")
	if err != nil {
		if strings.HasPrefix(err.Error(), "harness:") {
			h.res.Verdict, h.res.Msg = "inconclusive", err.Error()
		} else {
			h.res.count("histories_cut_by_rebuild_error", 1) // C01's subject
		}
		return
	}
	R := len(recs)
	// the command itself: `stfs recovery index` (defaults: record 0, block 0, no overwrite) into a new metadata file, into the index of a
	// prefix and into the complete index has to end with the filesystem of a from-scratch rebuild (plain and compression-only
	// configurations: key files are not needed)
	if cli := filepath.Join(verifRoot, "bin", "stfs"); h.cfg.Enc == "" && h.cfg.Sig == "" && !h.cfg.TapeMode {
		if _, err := os.Stat(cli); err == nil {
			for _, j := range []int{0, R / 2, R} {
				d := h.w.NewDir("c07cli")
				_ = os.MkdirAll(tapeDir(d), 0o777)
				drive := tapeDir(d) + "/drive.tar"
				switch {
				case j == R:
					if err := copyFile(h.rig.DB, d+"/index.sqlite"); err != nil {
						h.res.Verdict, h.res.Msg = "inconclusive", err.Error()
						return
					}
				case j > 0:
					if err := os.WriteFile(drive, img[:recs[j].Off], 0o666); err != nil {
						h.res.Verdict, h.res.Msg = "inconclusive", err.Error()
						return
					}
					prg, err := NewRig(d, h.cfg)
					if err != nil {
						h.res.Verdict, h.res.Msg = "inconclusive", "rig: "+err.Error()
						return
					}
					ierr := runIndex(prg, true)
					prg.Close()
					if ierr != nil {
						os.RemoveAll(d)
						continue
					}
				}
				if err := os.WriteFile(drive, img, 0o666); err != nil {
					h.res.Verdict, h.res.Msg = "inconclusive", err.Error()
					return
				}
				args := []string{"recovery", "index", "-d", drive, "-m", d + "/index.sqlite", "-z", fmt.Sprint(h.cfg.RS), "-v", "0"}
				if h.cfg.Comp != "" {
					args = append(args, "-c", h.cfg.Comp)
				}
				h.ops = append(h.ops, Op{K: "cli-recovery-index", N: j})
				if outb, err := exec.Command(cli, args...).CombinedOutput(); err != nil {
					h.violate("cli|error", "`stfs %s` over an index of the first %d of %d records fails: %v: %s", strings.Join(args, " "), j, R, err, clip(string(outb), 300))
					return
				}
				t, err := walkVia(h.w, h.cfg, d, true, "c07cliw")
				if err != nil {
					h.violate("cli|open", "opening the filesystem over the index that `stfs recovery index` produced (index of the first %d of %d records before): %v", j, R, err)
					return
				}
				if ds := DiffTrees(ref, t, "scratch", "stfs recovery index", true); len(ds) > 0 {
					h.violate("cli|differs", "`stfs recovery index` over an index of the first %d of %d records does not converge to the from-scratch rebuild: %s", j, R, shortList(ds, 5))
					return
				}
				h.res.count("cli_replays_checked", 1)
				os.RemoveAll(d)
			}
			h.ops = h.ops[:len(h.ops)-0]
		}
	}
	var js []int
	maxAll := 15
	if h.w.Tier == "thorough" {
		maxAll = 40
	}
	if R <= maxAll {
		for j := 0; j <= R; j++ {
			js = append(js, j)
		}
	} else {
		r := newRand(uint64(R) + uint64(len(img)))
		seen := map[int]bool{0: true, R: true, R - 1: true, 1: true}
		for len(seen) < maxAll {
			seen[r.Intn(R+1)] = true
		}
		for j := range seen {
			js = append(js, j)
		}
	}
	h.ops = append(h.ops, Op{K: "replay-check"})
	for _, j := range js {
		d := h.w.NewDir("c07")
		cut := int64(len(img))
		if j < R {
			cut = recs[j].Off
		}
		_ = os.MkdirAll(tapeDir(d), 0o777)
		drive := tapeDir(d) + "/drive.tar"
		if j == R {
			if err := copyFile(h.rig.DB, d+"/index.sqlite"); err != nil {
				h.res.Verdict, h.res.Msg = "inconclusive", err.Error()
				return
			}
		}
		if err := os.WriteFile(drive, img[:cut], 0o666); err != nil {
			h.res.Verdict, h.res.Msg = "inconclusive", err.Error()
			return
		}
		prefixDone := false
		if j > 0 && j < R && j%2 == 1 {
			// the index of the prefix was built by an earlier run that used another record size (`-z`): positions are split differently
			oc := h.cfg
			oc.RS = map[bool]int{true: h.cfg.RS * 2, false: h.cfg.RS/2 + 1}[h.cfg.RS <= 32]
			if oc.RS == h.cfg.RS {
				oc.RS++
			}
			org, err := NewRig(d, oc)
			if err != nil {
				h.res.Verdict, h.res.Msg = "inconclusive", "rig: "+err.Error()
				return
			}
			ierr := runIndex(org, true)
			org.Close()
			if ierr != nil {
				h.res.count("prefix_index_errors", 1) // C06's subject
				os.RemoveAll(d)
				continue
			}
			prefixDone = true
			h.res.count("prefix_indexes_built_with_other_record_size", 1)
		}
		rg, err := NewRig(d, h.cfg)
		if err != nil {
			h.res.Verdict, h.res.Msg = "inconclusive", "rig: "+err.Error()
			return
		}
		func() {
			defer rg.Close()
			defer os.RemoveAll(d)
			if j > 0 && j < R && !prefixDone {
				if err := runIndex(rg, true); err != nil {
					h.res.count("prefix_index_errors", 1) // C06's subject
					return
				}
			}
			if err := os.WriteFile(drive, img, 0o666); err != nil {
				h.res.Verdict, h.res.Msg = "inconclusive", err.Error()
				return
			}
			if err := runIndex(rg, false); err != nil {
				h.violate("replay-error", "replaying the whole tape (%d records) into an index that reflects the first %d records fails: %v", R, j, err)
				return
			}
			if err := rg.Init(); err != nil {
				h.violate("replay-open", "opening the filesystem over the replayed index (j=%d) fails: %v", j, err)
				return
			}
			t, err := WalkTree(rg.FS, true)
			if err != nil {
				h.violate("replay-walk", "walking the filesystem over the replayed index (j=%d) fails: %v", j, err)
				return
			}
			if ds := DiffTrees(ref, t, "scratch", "replayed", true); len(ds) > 0 {
				h.violate("replay-differs|"+strings.SplitN(ds[0], ":", 2)[0], "replay over the index of the first %d of %d records does not converge to the from-scratch rebuild: %s", j, R, shortList(ds, 5))
				return
			}
			rows1, err1 := DumpRows(rg.DB)
			if err := runIndex(rg, false); err != nil {
				h.violate("second-pass-error", "a second replay pass (j=%d) fails: %v", j, err)
				return
			}
			rows2, err2 := DumpRows(rg.DB)
			if err1 != nil || err2 != nil {
				h.res.Verdict, h.res.Msg = "inconclusive", fmt.Sprint(err1, err2)
				return
			}
			b1, _ := json.Marshal(rows1)
			b2, _ := json.Marshal(rows2)
			if !bytes.Equal(b1, b2) {
				h.violate("second-pass-changes", "running the indexer a second time (j=%d) changed index rows", j)
				return
			}
			// consequence of hidden index state (last-indexed position, tombstones): a write through the replayed index must land and survive
			if j%3 == 0 {
				name := "/c07-written-after-replay"
				data := genContent(900, "text", uint64(j)+17)
				fh, err := rg.FS.Create(name)
				if err != nil {
					h.violate("write-after-replay|create", "Create on the instance over the replayed index (j=%d) fails: %v", j, err)
					return
				}
				_, werr := fh.Write(data)
				cerr := fh.Close()
				if werr != nil || cerr != nil {
					h.violate("write-after-replay|write", "writing through the replayed index (j=%d): write=%v close=%v", j, werr, cerr)
					return
				}
				rg.LocksSettled()
				lt, err := WalkTree(rg.FS, true)
				rg.LocksSettled()
				if err != nil {
					h.violate("write-after-replay|walk", "walk after writing through the replayed index (j=%d): %v", j, err)
					return
				}
				want := Tree{}
				for k, v := range ref {
					want[k] = v
				}
				e := lt[name]
				want[name] = Entry{Kind: "f", Size: 900, RdLen: 900, Sum: sum(data), Perm: e.Perm, Uid: e.Uid, Gid: e.Gid, Mtime: e.Mtime, Atime: e.Atime}
				if ds := DiffTrees(want, lt, "expected", "replayed+write", true); len(ds) > 0 {
					h.violate("write-after-replay|tree", "after a write through the replayed index (j=%d) the tree is not the from-scratch tree plus the new file: %s", j, shortList(ds, 5))
					return
				}
				rt, err := walkVia(h.w, h.cfg, d, false, "c07reb")
				if err != nil {
					h.violate("write-after-replay|rebuild", "rebuild after a write through the replayed index (j=%d): %v", j, err)
					return
				}
				if ds := DiffTrees(lt, rt, "replayed+write", "rebuilt", true); len(ds) > 0 {
					h.violate("write-after-replay|rebuild-differs", "the write through the replayed index (j=%d) does not survive a rebuild: %s", j, shortList(ds, 5))
					return
				}
				h.res.count("writes_after_replay_checked", 1)
			}
			h.res.count("replays_checked", 1)
		}()
		if h.res.Verdict != "" {
			return
		}
	}
}

// ---- witness cases of open findings -----------------------------------------------------------

func witnessCases(prop string) []Case {
	mk := func(id string, cfg Cfg, ops []Op) Case {
		pb, _ := json.Marshal(seqP{Cfg: cfg, Witness: id, Ops: ops})
		return Case{ID: strings.ToLower(prop) + "-witness-" + id, Seed: 1, Kind: "witness:" + id, P: pb}
	}
	_ = os.O_RDWR
	switch prop {
	case "C01":
		return []Case{
			mk("symlink-rebuild", Cfg{Level: "fastest", RS: 20, WC: "file"}, []Op{{K: "mkdir", A: "/d", Perm: 0o755}, {K: "create", A: "/d/t", Len: 7, Dist: "text", DSeed: 1}, {K: "symlink", A: "/d/t", B: "/l"}}),
			mk("zero-time-chtimes", Cfg{Level: "fastest", RS: 20, WC: "file"}, []Op{{K: "create", A: "/f", Len: 3, Dist: "text", DSeed: 1}, {K: "chtimes", A: "/f", N: -62135596800}}),
			mk("non-utf8-name-embedded-header", Cfg{Enc: "age", Level: "fastest", RS: 20, WC: "file"}, []Op{{K: "mkdir", A: "/caf{E9}-latin1", Perm: 0o755}}), // {E9} stands for the byte 0xE9 (the case list travels as JSON)
		}
	case "C07":
		// the tape starts as what `tar cf x.tar top` writes (directory entries carry a trailing slash): open finding
		pb, _ := json.Marshal(seqP{Cfg: Cfg{Level: "fastest", RS: 20, WC: "file"}, Witness: "foreign-root-replay", Root: "top/", RootFmt: "pax",
			Ops: []Op{{K: "mkdir", A: "/d", Perm: 0o755}, {K: "create", A: "/d/f", Len: 5, Dist: "text", DSeed: 1}}})
		return []Case{{ID: "c07-witness-foreign-root-replay", Seed: 1, Kind: "witness:foreign-root-replay", P: pb}}
	case "C02":
		return []Case{
			mk("codec-suffix-name", Cfg{Comp: "gzip", Level: "fastest", RS: 20, WC: "file"}, []Op{{K: "create", A: "/x.gz", Len: 5, Dist: "text", DSeed: 1}}),
			mk("rename-while-open", Cfg{Level: "fastest", RS: 20, WC: "file"}, []Op{{K: "hcreate", A: "/f"}, {K: "hwrite", Len: 9, Dist: "text", DSeed: 4}, {K: "rename", A: "/f", B: "/g"}, {K: "hclose"}}),
			mk("remove-while-open", Cfg{Level: "fastest", RS: 20, WC: "file"}, []Op{{K: "hcreate", A: "/f"}, {K: "hwrite", Len: 9, Dist: "text", DSeed: 4}, {K: "remove", A: "/f"}, {K: "hclose"}}),
		}
	}
	return nil
}
