package main

import (
	"archive/tar"
	"bytes"
	"crypto/sha256"
	"database/sql"
	"encoding/hex"
	"encoding/json"
	"fmt"
	"time"
	"io"
	"os"
	"path"
	"sort"
	"strings"

	"github.com/pojntfx/stfs/pkg/encryption"
	sfs "github.com/pojntfx/stfs/pkg/fs"
	"github.com/spf13/afero"
	_ "modernc.org/sqlite"
)

// Entry is what a user can observe about one filesystem entry (C01's "visible tree").
type Entry struct {
	Kind  string `json:"kind"` // d | f | l
	Size  int64  `json:"size"`
	Perm  uint32 `json:"perm"`
	Uid   int    `json:"uid"`
	Gid   int    `json:"gid"`
	Mtime int64  `json:"mtime"`
	Atime int64  `json:"atime"`
	Link  string `json:"link,omitempty"`
	Sum   string `json:"sum,omitempty"`
	RdLen int64  `json:"rdlen"` // bytes actually read back
	Far   string `json:"far,omitempty"` // modification / access time in full when int64 nanoseconds since 1970 cannot hold them (before 1678, after 2261)
}

type Tree map[string]Entry

func sum(b []byte) string {
	h := sha256.Sum256(b)
	return hex.EncodeToString(h[:8])
}

func infoToEntry(i os.FileInfo) Entry {
	e := Entry{Perm: uint32(i.Mode().Perm()), Mtime: i.ModTime().UnixNano()}
	if i.IsDir() {
		e.Kind = "d"
	} else {
		e.Kind = "f"
		e.Size = i.Size()
	}
	const reach = 9_000_000_000 // seconds
	if s := i.ModTime().Unix(); (s > reach || s < -reach) && !i.ModTime().IsZero() {
		e.Far = "m" + i.ModTime().UTC().Format(time.RFC3339Nano)
	}
	if st, ok := i.Sys().(*sfs.Stat); ok && st != nil {
		e.Uid, e.Gid = int(st.Uid), int(st.Gid)
		e.Atime = st.Atim.Nano()
		if s := int64(st.Atim.Sec); (s > reach || s < -reach) && s != -62135596800 {
			e.Far += fmt.Sprintf(" a%d.%09d", s, int64(st.Atim.Nsec))
		}
	}
	return e
}

// ReadAll reads a file to EOF through the afero API (always to EOF: a half-consumed stream keeps the drive, finding O1).
func ReadAllFile(f afero.Fs, p string) ([]byte, error) {
	stepBegin()
	h, err := f.Open(p)
	if err != nil {
		return nil, err
	}
	b, err := io.ReadAll(h)
	cerr := h.Close()
	if err != nil {
		return b, err
	}
	return b, cerr
}

// WalkTree lists breadth-first from the root using only the afero API.
func WalkTree(f afero.Fs, content bool) (Tree, error) { return walkTree(f, content, true) }

// walkTree: stfsLinks = LstatIfPossible succeeds only for symbolic links (STFS's convention); otherwise the mode bits decide.
func walkTree(f afero.Fs, content bool, stfsLinks bool) (Tree, error) {
	out := Tree{}
	lst, _ := f.(afero.Lstater)
	rdl, _ := f.(afero.LinkReader)
	queue := []string{"/"}
	for len(queue) > 0 {
		d := queue[0]
		queue = queue[1:]
		h, err := f.Open(d)
		if err != nil {
			return out, fmt.Errorf("open dir %q: %w", d, err)
		}
		infos, err := h.Readdir(-1)
		h.Close()
		if err != nil {
			return out, fmt.Errorf("readdir %q: %w", d, err)
		}
		for _, i := range infos {
			p := path.Join(d, i.Name())
			if _, dup := out[p]; dup {
				return out, fmt.Errorf("duplicate listing of %q in %q", p, d)
			}
			e := infoToEntry(i)
			isLink := false
			if lst != nil {
				if li, ok, err := lst.LstatIfPossible(p); ok && err == nil {
					isLink = stfsLinks || li.Mode()&os.ModeSymlink != 0
				}
			}
			if isLink {
				e.Kind = "l"
				e.Size = 0
				if rdl != nil {
					if t, err := rdl.ReadlinkIfPossible(p); err == nil {
						e.Link = t
					} else {
						e.Link = "!err:" + err.Error()
					}
				}
				out[p] = e
				continue
			}
			if e.Kind == "f" && content {
				b, err := ReadAllFile(f, p)
				if err != nil {
					return out, fmt.Errorf("read %q: %w", p, err)
				}
				e.Sum = sum(b)
				e.RdLen = int64(len(b))
			}
			out[p] = e
			if e.Kind == "d" {
				queue = append(queue, p)
			}
		}
	}
	return out, nil
}

// DiffTrees returns human-readable differences (empty = equal). fields selects what to compare beyond kind/size/content.
func DiffTrees(a, b Tree, an, bn string, attrs bool) []string {
	var ds []string
	for k, v := range a {
		w, ok := b[k]
		if !ok {
			ds = append(ds, fmt.Sprintf("only-%s:%s", an, k))
			continue
		}
		if v.Kind != w.Kind || v.Size != w.Size || v.Sum != w.Sum || v.Link != w.Link || v.RdLen != w.RdLen {
			ds = append(ds, fmt.Sprintf("differs:%s %s=%+v %s=%+v", k, an, v, bn, w))
			continue
		}
		if attrs && (v.Perm != w.Perm || v.Uid != w.Uid || v.Gid != w.Gid || v.Mtime != w.Mtime || v.Atime != w.Atime || v.Far != w.Far) {
			ds = append(ds, fmt.Sprintf("attrs:%s %s=%+v %s=%+v", k, an, v, bn, w))
		}
	}
	for k := range b {
		if _, ok := a[k]; !ok {
			ds = append(ds, fmt.Sprintf("only-%s:%s", bn, k))
		}
	}
	sort.Strings(ds)
	return ds
}

// Row is one row of the index database, tombstones included.
type Row struct {
	Record, LastRecord, Block, LastBlock, Deleted, Typeflag int64
	Name, Linkname                                          string
	Size, Mode, UID, GID                                    int64
	Uname, Gname                                            string
	Modtime, Accesstime, Changetime                         string
	Devmajor, Devminor                                      int64
	Pax                                                     string
	Format                                                  int64
}

// DumpRows reads the whole headers table through the harness's own connection.
func DumpRows(dbPath string) ([]Row, error) {
	db, err := sql.Open("sqlite", "file:"+dbPath+"?mode=ro")
	if err != nil {
		return nil, err
	}
	defer db.Close()
	rows, err := db.Query(`select record, lastknownrecord, block, lastknownblock, deleted, typeflag, name, linkname, size, mode, uid, gid, uname, gname, cast(modtime as text), cast(accesstime as text), cast(changetime as text), devmajor, devminor, paxrecords, format from headers order by name, linkname`)
	if err != nil {
		return nil, err
	}
	defer rows.Close()
	var out []Row
	for rows.Next() {
		var r Row
		if err := rows.Scan(&r.Record, &r.LastRecord, &r.Block, &r.LastBlock, &r.Deleted, &r.Typeflag, &r.Name, &r.Linkname, &r.Size, &r.Mode, &r.UID, &r.GID, &r.Uname, &r.Gname, &r.Modtime, &r.Accesstime, &r.Changetime, &r.Devmajor, &r.Devminor, &r.Pax, &r.Format); err != nil {
			return nil, err
		}
		out = append(out, r)
	}
	return out, rows.Err()
}

func RowsDigest(rs []Row) string {
	b, _ := json.Marshal(rs)
	return sum(b)
}

// TapeRec is one record found on the drive file by the harness's own scan (archive/tar only).
type TapeRec struct {
	Off        int64 // byte offset of the first header block
	ContentOff int64
	ContentLen int64 // on-tape member size (outer header Size)
	Outer      *tar.Header
	Inner      *tar.Header // logical header after the harness's own decoding (nil if undecodable)
	DecodeErr  string
	SigRec     string // STFS.Signature of the header layer, if present
	Embedded   string // the signed embedded header string, if signature layer present
}

type countR struct {
	r io.Reader
	n int64
}

func (c *countR) Read(p []byte) (int, error) {
	n, err := c.r.Read(p)
	c.n += int64(n)
	return n, err
}

// ScanTape iterates all records of a tape image, restarting after each trailer (ignore-zeros semantics).
// It returns the records found, the offset where scanning stopped, and a non-nil error if the stream is not well-formed up to its end.
func ScanTape(img []byte, cfg Cfg, rc *cryptoView) ([]TapeRec, int64, error) {
	var recs []TapeRec
	off := int64(0)
	zero := make([]byte, 512)
	for off < int64(len(img)) {
		// ignore-zeros semantics: skip all-zero blocks (trailers, record padding) one block at a time
		end := off + 512
		if end > int64(len(img)) {
			return recs, off, fmt.Errorf("tape ends with a partial block at %d (%d bytes)", off, int64(len(img))-off)
		}
		if bytes.Equal(img[off:end], zero) {
			off = end
			continue
		}
		cr := &countR{r: bytes.NewReader(img[off:])}
		tr := tar.NewReader(cr)
		for {
			start := off + cr.n
			// stop this archive at its trailer: a zero block ends it (handled by the outer loop)
			if start+512 <= int64(len(img)) && bytes.Equal(img[start:start+512], zero) {
				break
			}
			if start >= int64(len(img)) {
				break
			}
			hdr, err := tr.Next()
			if err == io.EOF {
				break
			}
			if err != nil {
				return recs, start, fmt.Errorf("tar scan at %d: %w", start, err)
			}
			rec := TapeRec{Off: start, ContentOff: off + cr.n, ContentLen: hdr.Size, Outer: hdr}
			rec.Inner, rec.SigRec, rec.Embedded, err = decodeHeader(hdr, cfg, rc)
			if err != nil {
				rec.DecodeErr = err.Error()
			}
			recs = append(recs, rec)
			if _, err := io.Copy(io.Discard, tr); err != nil {
				return recs, start, fmt.Errorf("tar content at %d: %w", start, err)
			}
			// position after the member's padding
			pos := rec.ContentOff + (hdr.Size+511)/512*512
			if pos > int64(len(img)) {
				return recs, start, fmt.Errorf("member at %d: padding cut off", start)
			}
			if off+cr.n < pos {
				if _, err := io.CopyN(io.Discard, cr, pos-(off+cr.n)); err != nil {
					return recs, start, fmt.Errorf("member at %d: %w", start, err)
				}
				tr = tar.NewReader(cr)
			}
		}
		off += cr.n
		if off%512 != 0 {
			off += 512 - off%512
		}
	}
	return recs, off, nil
}

type cryptoView struct {
	EncIdentity interface{}
}

func decodeHeader(outer *tar.Header, cfg Cfg, rc *cryptoView) (inner *tar.Header, sig string, embedded string, err error) {
	h := *outer
	if cfg.Enc != "" {
		if rc == nil {
			return nil, "", "", fmt.Errorf("no identity")
		}
		emb, ok := h.PAXRecords["STFS.EmbeddedHeader"]
		if !ok {
			return nil, "", "", fmt.Errorf("encrypted tape: outer header without embedded header")
		}
		plain, err := encryption.DecryptString(emb, cfg.Enc, rc.EncIdentity)
		if err != nil {
			return nil, "", "", err
		}
		var nh tar.Header
		if err := json.Unmarshal([]byte(plain), &nh); err != nil {
			return nil, "", "", err
		}
		h = nh
	}
	if cfg.Sig != "" {
		emb, ok := h.PAXRecords["STFS.EmbeddedHeader"]
		if !ok {
			return nil, "", "", fmt.Errorf("signed tape: header without embedded header")
		}
		sig = h.PAXRecords["STFS.Signature"]
		embedded = emb
		var nh tar.Header
		if err := json.Unmarshal([]byte(emb), &nh); err != nil {
			return nil, sig, emb, err
		}
		h = nh
	}
	return &h, sig, embedded, nil
}

func stfsAction(h *tar.Header) string {
	if h == nil {
		return "?"
	}
	a, ok := h.PAXRecords["STFS.Action"]
	if !ok {
		return "CREATE"
	}
	return a
}

func describeRec(r TapeRec) string {
	if r.Inner == nil {
		return fmt.Sprintf("@%d ?(%s)", r.Off, r.DecodeErr)
	}
	s := fmt.Sprintf("@%d %s %s", r.Off, stfsAction(r.Inner), r.Inner.Name)
	if rn, ok := r.Inner.PAXRecords["STFS.ReplacesName"]; ok {
		s += " <-" + rn
	}
	if rc, ok := r.Inner.PAXRecords["STFS.ReplacesContent"]; ok {
		s += " rc=" + rc
	}
	return s
}

func hasPrefixBytes(after, before []byte) bool { return bytes.HasPrefix(after, before) }

func shortList(ds []string, n int) string {
	if len(ds) > n {
		return strings.Join(ds[:n], "; ") + fmt.Sprintf("; ... (%d more)", len(ds)-n)
	}
	return strings.Join(ds, "; ")
}
