#!/bin/bash
# usage: tools/seedcheck.sh <patch.diff> <Cxx> [more props...]   - applies a seeded change to /repo, runs the quick checks, reverts.
export GOFLAGS=-mod=mod GOPROXY=off GOSUMDB=off GOTOOLCHAIN=local
P=$1; shift
if [ -n "$(git -C /repo status --porcelain)" ]; then echo "/repo not clean"; exit 2; fi
git -C /repo apply "$P" || { echo "patch does not apply"; exit 2; }
trap 'git -C /repo checkout -- . ; git -C /repo status --porcelain' EXIT
TIER=${TIER:-quick}
for prop in "$@"; do
  out=$(cd /verif && bin/check $prop $TIER 2>&1)
  rc=$?
  echo "== $prop rc=$rc $(echo "$out" | grep -c '^VIOLATION') violation lines"
  echo "$out" | grep -A2 "^VIOLATION" | head -${LINES_SHOWN:-9} | cut -c1-400
  echo "$out" | grep "^SUMMARY\|^INCONCLUSIVE\|BUILD FAILED" | head -3 | cut -c1-250
done
