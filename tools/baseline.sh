#!/bin/bash
# Runs the repository's pinned baseline with the verif guard OFF and compares with /root/.vp/BASELINE.json stable_pass.
# usage: tools/baseline.sh [repo-dir]   (default /repo)
export GOFLAGS=-mod=mod GOPROXY=off GOSUMDB=off GOTOOLCHAIN=local
REPO=${1:-/repo}
OUT=$(mktemp /tmp/baseline.XXXXXX.json)
# BASELINE_FAST=1: only the top-level tests the pinned list names (the rest of pkg/fs runs out of descriptors at the pinned commit
# already and only costs time); everything still has to compile. Used while confirming seeded changes, never for fix commits.
RUN=""
if [ -n "$BASELINE_FAST" ]; then RUN="-run ^(TestFileInfo_IsDir|TestFileInfo_ModTime|TestFileInfo_Mode|TestFileInfo_Name|TestFileInfo_Size|TestFileInfo_Sys|TestFile_Name|TestNewFileInfo|TestNewFileInfoFromTarHeader)\$"; fi
(cd "$REPO" && go test -mod=mod -json -vet=off -count=1 -timeout 25m $RUN ./... > "$OUT" 2>/dev/null)
python3 - "$OUT" <<'PY'
import json,sys
want=set(json.load(open('/root/.vp/BASELINE.json'))['stable_pass'])
got=set()
for l in open(sys.argv[1]):
    try: e=json.loads(l)
    except: continue
    if e.get('Action')=='pass' and e.get('Test'):
        got.add(e['Package']+'::'+e['Test'])
missing=want-got
print(f"baseline: want={len(want)} passed_of_want={len(want&got)} missing={len(missing)}")
for m in sorted(missing)[:10]: print("  MISSING",m)
sys.exit(1 if missing else 0)
PY
rc=$?
rm -f "$OUT"
exit $rc
