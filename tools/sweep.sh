#!/bin/bash
# Background sweep (for `vp run --with-repo -- tools/sweep.sh <tier> <seeds...>`): all checks at the given tier and seeds against the
# repository snapshot in $VP_RUN_REPO (or /repo). Prints one line per check; non-zero exits and violation lines are kept verbatim.
TIER=${1:-thorough}; shift
SEEDS=${@:-1}
export VERIF_REPO=${VP_RUN_REPO:-/repo}
for seed in $SEEDS; do
  for p in C01 C02 C03 C04 C05 C06 C07 C08 C09 C10 C11 C12 C13 C14 C15 C16 C17 C18; do
    out=$(VERIF_SEED=$seed bin/check $p $TIER 2>&1); rc=$?
    echo "seed=$seed $p rc=$rc $(echo "$out" | grep '^SUMMARY' | cut -c1-170)"
    if [ $rc -ne 0 ]; then echo "$out" | grep -A3 '^VIOLATION\|^INCONCLUSIVE\|BUILD' | head -40; fi
  done
done
