package main

import (
	"fmt"
	"os"
	"path"
	"sort"
	"strings"
)

// Reference model of a hierarchical filesystem with POSIX semantics as exposed by afero.OsFs (validated against the kernel
// in the oracle self-test). Only what properties C02/C11/C14 compare is modelled.

type MNode struct {
	Dir  bool
	Data []byte
	Perm uint32

	// attributes the model cannot predict at creation time are adopted from the first observation and must then stay
	Adopted   bool
	Uid, Gid  int
	Mtime     int64
	Atime     int64
	OpenW     bool // a write handle is open on the file: stfs is a write-back filesystem, size and content are "don't care" until Sync/Close
	MtimeFree bool // content was written: POSIX updates mtime, STFS keeps it; either is accepted until re-adopted
}

type Model struct {
	N    map[string]*MNode // clean absolute path -> node; "/" always present
	held *MHandle          // a write handle kept open across calls (witness histories only)
}

func NewModel() *Model {
	return &Model{N: map[string]*MNode{"/": {Dir: true, Perm: 0o777}}}
}

func (m *Model) Clone() *Model {
	c := &Model{N: make(map[string]*MNode, len(m.N))}
	for k, v := range m.N {
		n := *v
		if v.Data != nil {
			n.Data = append([]byte(nil), v.Data...)
		}
		c.N[k] = &n
	}
	return c
}

type MOut struct {
	OK       bool
	NotExist bool // failure class for lookups of missing names
	Amb      bool // reference-ambiguous: both outcomes are accepted (success must then have the described effect)
	Why      string
}

func ok() MOut            { return MOut{OK: true} }
func fail(why string) MOut { return MOut{Why: why} }
func noent(why string) MOut {
	return MOut{NotExist: true, Why: why}
}

func (m *Model) parentOK(p string) (MOut, bool) {
	par := path.Dir(p)
	n, ok := m.N[par]
	if !ok {
		// a missing ancestor, or an ancestor that is a file
		for q := par; q != "/" && q != "."; q = path.Dir(q) {
			if a, ok := m.N[q]; ok {
				if !a.Dir {
					return fail("ancestor is a file"), false
				}
				break
			}
		}
		return noent("parent missing"), false
	}
	if !n.Dir {
		return fail("parent is a file"), false
	}
	return MOut{}, true
}

func (m *Model) children(p string) []string {
	var out []string
	pre := strings.TrimSuffix(p, "/") + "/"
	for k := range m.N {
		if k != p && strings.HasPrefix(k, pre) {
			out = append(out, k)
		}
	}
	sort.Strings(out)
	return out
}

func (m *Model) directChildren(p string) []string {
	var out []string
	for _, k := range m.children(p) {
		if path.Dir(k) == p {
			out = append(out, path.Base(k))
		}
	}
	return out
}

func (m *Model) Mkdir(p string, perm uint32) MOut {
	if p == "/" {
		return fail("exists")
	}
	if o, ok := m.parentOK(p); !ok {
		return o
	}
	if _, ok := m.N[p]; ok {
		return fail("exists")
	}
	m.N[p] = &MNode{Dir: true, Perm: perm & 0o777}
	return ok()
}

func (m *Model) MkdirAll(p string, perm uint32) MOut {
	if p == "/" {
		return ok()
	}
	parts := strings.Split(strings.TrimPrefix(p, "/"), "/")
	cur := ""
	for _, c := range parts {
		cur += "/" + c
		if n, ok := m.N[cur]; ok && !n.Dir {
			return fail("component is a file")
		}
	}
	cur = ""
	for _, c := range parts {
		cur += "/" + c
		if _, ok := m.N[cur]; !ok {
			m.N[cur] = &MNode{Dir: true, Perm: perm & 0o777}
		}
	}
	return ok()
}

// Open resolves OpenFile's effect on the namespace. It returns the node to operate on (nil on failure).
func (m *Model) Open(p string, flag int, perm uint32) (MOut, *MNode) {
	acc := flag & (os.O_RDONLY | os.O_WRONLY | os.O_RDWR)
	writable := acc == os.O_WRONLY || acc == os.O_RDWR
	n, exists := m.N[p]
	if exists {
		if flag&os.O_CREATE != 0 && flag&os.O_EXCL != 0 {
			return fail("exists (O_EXCL)"), nil
		}
		if n.Dir {
			if writable || flag&os.O_TRUNC != 0 || flag&os.O_APPEND != 0 {
				return fail("is a directory"), nil
			}
			if flag&os.O_CREATE != 0 {
				// open(2) refuses O_CREAT on an existing directory (EISDIR), in-memory references open it: accept either, no effect
				return MOut{OK: true, Amb: true, Why: "O_CREATE on a directory"}, n
			}
			return ok(), n
		}
		if flag&os.O_TRUNC != 0 && writable {
			n.Data = n.Data[:0]
			n.MtimeFree = true
		}
		return ok(), n
	}
	// a path through a file (ENOTDIR) is a failure, not a missing name, but both fail
	if flag&os.O_CREATE == 0 {
		if o, pok := m.parentOK(p); !pok && !o.NotExist {
			return o, nil
		}
		return noent("missing"), nil
	}
	if o, pok := m.parentOK(p); !pok {
		return o, nil
	}
	n = &MNode{Perm: perm & 0o777, Data: []byte{}}
	m.N[p] = n
	return ok(), n
}

func (m *Model) Remove(p string) MOut {
	n, ok2 := m.N[p]
	if !ok2 {
		if o, pok := m.parentOK(p); !pok && !o.NotExist {
			return o
		}
		return noent("missing")
	}
	if p == "/" {
		return fail("root")
	}
	if n.Dir && len(m.children(p)) > 0 {
		return fail("not empty")
	}
	delete(m.N, p)
	return ok()
}

func (m *Model) RemoveAll(p string) MOut {
	if p == "/" {
		return MOut{Amb: true, Why: "root"}
	}
	if _, ok2 := m.N[p]; !ok2 {
		// os.RemoveAll("file/x") fails with ENOTDIR while in-memory references return nil: ambiguous, no effect either way
		if o, pok := m.parentOK(p); !pok && !o.NotExist {
			return MOut{OK: true, Amb: true, Why: "through a file"}
		}
		return ok()
	}
	for _, c := range m.children(p) {
		delete(m.N, c)
	}
	delete(m.N, p)
	return ok()
}

func (m *Model) Rename(a, b string) MOut {
	if a == "/" || b == "/" {
		return fail("root")
	}
	src, ok2 := m.N[a]
	if !ok2 {
		if o, pok := m.parentOK(a); !pok && !o.NotExist {
			return o
		}
		return noent("source missing")
	}
	if o, pok := m.parentOK(b); !pok {
		return o
	}
	if a == b {
		if src.Dir {
			return MOut{OK: true, Amb: true, Why: "rename(d,d): os.Rename refuses existing directories"}
		}
		return ok()
	}
	if strings.HasPrefix(b, a+"/") {
		return fail("into own subtree")
	}
	if dst, ok3 := m.N[b]; ok3 {
		switch {
		case !src.Dir && !dst.Dir:
			delete(m.N, b)
		case !src.Dir && dst.Dir:
			return fail("file over directory")
		case src.Dir && !dst.Dir:
			return fail("directory over file")
		default:
			if len(m.children(b)) > 0 {
				return fail("target directory not empty")
			}
			// POSIX replaces an empty directory, Go's os.Rename (afero.OsFs) refuses: accept either (caller applies RenameReplaceEmptyDir on success)
			return MOut{OK: true, Amb: true, Why: "dir over empty dir"}
		}
	}
	m.moveSubtree(a, b)
	return ok()
}

func (m *Model) moveSubtree(a, b string) {
	kids := m.children(a)
	m.N[b] = m.N[a]
	delete(m.N, a)
	for _, k := range kids {
		m.N[b+strings.TrimPrefix(k, a)] = m.N[k]
		delete(m.N, k)
	}
}

// RenameReplaceEmptyDir applies the POSIX branch of the ambiguous dir-over-empty-dir rename.
func (m *Model) RenameReplaceEmptyDir(a, b string) {
	delete(m.N, b)
	m.moveSubtree(a, b)
}

func (m *Model) lookup(p string) (*MNode, MOut) {
	n, ok2 := m.N[p]
	if !ok2 {
		if o, pok := m.parentOK(p); !pok && !o.NotExist {
			return nil, o
		}
		return nil, noent("missing")
	}
	return n, ok()
}

func (m *Model) Chmod(p string, perm uint32) MOut {
	n, o := m.lookup(p)
	if n == nil {
		return o
	}
	n.Perm = perm & 0o777
	return ok()
}

func (m *Model) Chown(p string, uid, gid int) MOut {
	n, o := m.lookup(p)
	if n == nil {
		return o
	}
	if uid != -1 { // chown(2): -1 leaves the id as it is
		n.Uid = uid
	}
	if gid != -1 {
		n.Gid = gid
	}
	return ok()
}

func (m *Model) Chtimes(p string, at, mt int64) MOut {
	n, o := m.lookup(p)
	if n == nil {
		return o
	}
	n.Atime, n.Mtime = at, mt
	n.MtimeFree = false
	return ok()
}

// Tree renders the model as an observable tree (attributes only as far as known).
func (m *Model) Tree() Tree {
	t := Tree{}
	for k, n := range m.N {
		if k == "/" {
			continue
		}
		e := Entry{Perm: n.Perm, Uid: n.Uid, Gid: n.Gid, Mtime: n.Mtime, Atime: n.Atime}
		if n.Dir {
			e.Kind = "d"
		} else {
			e.Kind = "f"
			e.Size = int64(len(n.Data))
			e.RdLen = e.Size
			e.Sum = sum(n.Data)
		}
		t[k] = e
	}
	return t
}

// CompareAndAdopt compares an observed tree with the model. Unknown creation attributes are adopted on first sight.
func (m *Model) CompareAndAdopt(obs Tree) []string {
	var ds []string
	for k, n := range m.N {
		if k == "/" {
			continue
		}
		o, ok2 := obs[k]
		if !ok2 {
			ds = append(ds, "missing-in-stfs:"+k)
			continue
		}
		wantKind := "f"
		if n.Dir {
			wantKind = "d"
		}
		if o.Kind != wantKind {
			ds = append(ds, "kind:"+k+" stfs="+o.Kind+" ref="+wantKind)
			continue
		}
		if !n.Dir && !n.OpenW {
			if o.Size != int64(len(n.Data)) || o.RdLen != int64(len(n.Data)) || o.Sum != sum(n.Data) {
				ds = append(ds, sprintf("content:%s stfs(size=%d read=%d sum=%s) ref(size=%d sum=%s)", k, o.Size, o.RdLen, o.Sum, len(n.Data), sum(n.Data)))
			}
		}
		if o.Perm != n.Perm {
			ds = append(ds, sprintf("perm:%s stfs=%o ref=%o", k, o.Perm, n.Perm))
		}
		if !n.Adopted {
			n.Adopted = true
			if n.Uid == 0 && n.Gid == 0 {
				n.Uid, n.Gid = o.Uid, o.Gid
			}
			if n.Mtime == 0 {
				n.Mtime = o.Mtime
			}
			if n.Atime == 0 {
				n.Atime = o.Atime
			}
		}
		if o.Uid != n.Uid || o.Gid != n.Gid {
			ds = append(ds, sprintf("owner:%s stfs=%d:%d ref=%d:%d", k, o.Uid, o.Gid, n.Uid, n.Gid))
		}
		if n.MtimeFree {
			n.Mtime = o.Mtime
			n.MtimeFree = false
		} else if o.Mtime != n.Mtime {
			ds = append(ds, sprintf("mtime:%s stfs=%d ref=%d", k, o.Mtime, n.Mtime))
		}
		if o.Atime != n.Atime {
			ds = append(ds, sprintf("atime:%s stfs=%d ref=%d", k, o.Atime, n.Atime))
		}
	}
	for k := range obs {
		if _, ok2 := m.N[k]; !ok2 {
			ds = append(ds, "extra-in-stfs:"+k)
		}
	}
	sort.Strings(ds)
	return ds
}

// ---------------------------------------------------------------------------------------------
// Handle model: a byte array with a cursor, os.File semantics.

type MHandle struct {
	N      *MNode
	Read   bool
	Write  bool
	Append bool
	Pos    int64
	PosUnk bool // after WriteAt the cursor is reference-ambiguous (pwrite keeps it, mem.File moves it)
	Closed bool
}

func NewMHandle(n *MNode, flag int) *MHandle {
	acc := flag & (os.O_RDONLY | os.O_WRONLY | os.O_RDWR)
	return &MHandle{N: n, Read: acc == os.O_RDONLY || acc == os.O_RDWR, Write: acc == os.O_WRONLY || acc == os.O_RDWR, Append: flag&os.O_APPEND != 0}
}

type HOut struct {
	OK   bool
	N    int
	Data []byte
	EOF  bool
	Off  int64
}

func (h *MHandle) DoRead(n int) HOut {
	if !h.Read || h.N.Dir {
		return HOut{}
	}
	if n == 0 {
		return HOut{OK: true}
	}
	if h.Pos >= int64(len(h.N.Data)) {
		return HOut{OK: true, EOF: true}
	}
	end := h.Pos + int64(n)
	if end > int64(len(h.N.Data)) {
		end = int64(len(h.N.Data))
	}
	d := append([]byte(nil), h.N.Data[h.Pos:end]...)
	h.Pos = end
	return HOut{OK: true, N: len(d), Data: d, EOF: end == int64(len(h.N.Data)) && len(d) < n}
}

func (h *MHandle) DoReadAt(n int, off int64) HOut {
	if !h.Read || h.N.Dir || off < 0 {
		return HOut{}
	}
	if n == 0 {
		return HOut{OK: true}
	}
	if off >= int64(len(h.N.Data)) {
		return HOut{OK: true, EOF: true}
	}
	end := off + int64(n)
	if end > int64(len(h.N.Data)) {
		end = int64(len(h.N.Data))
	}
	d := append([]byte(nil), h.N.Data[off:end]...)
	return HOut{OK: true, N: len(d), Data: d, EOF: len(d) < n}
}

func (h *MHandle) DoSeek(off int64, whence int) HOut {
	if h.N.Dir {
		return HOut{OK: true}
	}
	var dst int64
	switch whence {
	case 0:
		dst = off
	case 1:
		dst = h.Pos + off
	case 2:
		dst = int64(len(h.N.Data)) + off
	default:
		return HOut{}
	}
	if dst < 0 {
		return HOut{}
	}
	h.Pos = dst
	h.PosUnk = false
	return HOut{OK: true, Off: dst}
}

func (h *MHandle) writeAt(p []byte, off int64) {
	if len(p) == 0 {
		return // a zero-length write has no effect, not even past the end
	}
	end := off + int64(len(p))
	if end > int64(len(h.N.Data)) {
		nd := make([]byte, end)
		copy(nd, h.N.Data)
		h.N.Data = nd
	}
	copy(h.N.Data[off:], p)
	h.N.MtimeFree = true
}

func (h *MHandle) DoWrite(p []byte) HOut {
	if !h.Write || h.N.Dir {
		return HOut{}
	}
	if len(p) == 0 {
		return HOut{OK: true} // no effect at all, not even the move to the end that O_APPEND implies
	}
	if h.Append {
		h.Pos = int64(len(h.N.Data))
	}
	h.writeAt(p, h.Pos)
	h.Pos += int64(len(p))
	return HOut{OK: true, N: len(p)}
}

func (h *MHandle) DoWriteAt(p []byte, off int64) HOut {
	if !h.Write || h.N.Dir || off < 0 || h.Append {
		return HOut{} // os.File refuses WriteAt on O_APPEND files
	}
	h.writeAt(p, off)
	h.PosUnk = true
	return HOut{OK: true, N: len(p)}
}

func (h *MHandle) DoTruncate(sz int64) HOut {
	if !h.Write || h.N.Dir || sz < 0 {
		return HOut{}
	}
	if sz <= int64(len(h.N.Data)) {
		h.N.Data = h.N.Data[:sz]
	} else {
		nd := make([]byte, sz)
		copy(nd, h.N.Data)
		h.N.Data = nd
	}
	h.N.MtimeFree = true
	return HOut{OK: true}
}

var sprintf = fmt.Sprintf
