package main

import (
	"bytes"
	"fmt"
	"io"
	"os"
	"strings"

	"github.com/spf13/afero"
)

// Oracle self-tests: the reference model must agree with the kernel (through afero.OsFs, the reference the upstream tests use),
// the handle model with real *os.File handles, and the C09 needles must find their markers on an unencrypted tape.
// A failure here means the harness's oracle is wrong: checks must then not be trusted (exit 2, never a VIOLATION).

func osTree(f afero.Fs) (Tree, error) {
	t, err := walkTree(f, true, false)
	if err != nil {
		return nil, err
	}
	return t, nil
}

func selftestModelVsOs() error {
	base, err := os.MkdirTemp("", "verif-selftest-")
	if err != nil {
		return err
	}
	defer os.RemoveAll(base)
	total, amb := 0, 0
	for h := 0; h < 250; h++ {
		dir := fmt.Sprintf("%s/h%d", base, h)
		if err := os.MkdirAll(dir, 0o777); err != nil {
			return err
		}
		ofs := afero.NewBasePathFs(afero.NewOsFs(), dir)
		rig := &Rig{FS: ofs, Cfg: PlainCfg()}
		m := NewModel()
		cfg := PlainCfg()
		if h%2 == 1 {
			cfg.WC = "memory"
		}
		g := NewGen(newRand(uint64(h)+1000), GenOpts{Cfg: cfg, NoAttrs: false, Late: true})
		tree := Tree{}
		var hist []string
		for s := 0; s < 25; s++ {
			op := g.Next(tree)
			if op.K == "chown" || op.K == "chtimes" {
				continue // owners and timestamps of the kernel side depend on the environment
			}
			hist = append(hist, op.String())
			out := execOp(rig, op)
			mo, mexp := applyModel(m, op)
			total++
			if mo.Amb {
				amb++
				if out.OK && op.K == "rename" && op.A != op.B {
					if n, ok := m.N[op.B]; ok && n.Dir {
						m.RenameReplaceEmptyDir(op.A, op.B)
					}
				}
			} else if mo.OK != out.OK {
				return fmt.Errorf("history %d %v: kernel ok=%v (%s), model ok=%v (%s)", h, hist, out.OK, out.Err, mo.OK, mo.Why)
			} else if mo.OK {
				switch op.K {
				case "read":
					if !bytes.Equal(out.Data, mexp.Data) {
						return fmt.Errorf("history %d %v: read differs", h, hist)
					}
				case "list":
					if strings.Join(out.Names, "\x00") != strings.Join(mexp.Names, "\x00") {
						return fmt.Errorf("history %d %v: listing kernel %q model %q", h, hist, out.Names, mexp.Names)
					}
				case "stat":
					if out.Info.Kind != mexp.Info.Kind || (out.Info.Kind == "f" && out.Info.Size != mexp.Info.Size) || out.Info.Perm != mexp.Info.Perm {
						return fmt.Errorf("history %d %v: stat kernel %+v model %+v", h, hist, *out.Info, *mexp.Info)
					}
				}
			} else if mo.NotExist && lookupKind(op.K) && !out.NotExist {
				return fmt.Errorf("history %d %v: model says not-exist, kernel error %q", h, hist, out.Err)
			}
			tree, err = osTree(ofs)
			if err != nil {
				return fmt.Errorf("history %d %v: walk: %v", h, hist, err)
			}
			mt := m.Tree()
			for p, e := range mt {
				o, ok := tree[p]
				if !ok || o.Kind != e.Kind || (e.Kind == "f" && (o.Size != e.Size || o.Sum != e.Sum)) || o.Perm != e.Perm {
					return fmt.Errorf("history %d %v: entry %q kernel %+v model %+v", h, hist, p, o, e)
				}
			}
			for p := range tree {
				if _, ok := mt[p]; !ok {
					return fmt.Errorf("history %d %v: kernel has %q, model does not", h, hist, p)
				}
			}
		}
	}
	fmt.Printf("  model vs afero.OsFs: %d calls compared, %d reference-ambiguous\n", total, amb)
	return nil
}

func selftestHandleVsOsFile() error {
	base, err := os.MkdirTemp("", "verif-selftest-h-")
	if err != nil {
		return err
	}
	defer os.RemoveAll(base)
	calls := 0
	for s := 0; s < 600; s++ {
		r := newRand(uint64(s) + 5000)
		init := []int{-1, 0, 1, 10, 513, 2000}[r.Intn(6)]
		acc := []int{os.O_RDONLY, os.O_WRONLY, os.O_RDWR, os.O_RDWR}[r.Intn(4)]
		fl := acc
		if acc != os.O_RDONLY {
			if r.Intn(4) == 0 {
				fl |= os.O_TRUNC
			}
			if r.Intn(4) == 0 {
				fl |= os.O_APPEND
			}
		}
		if init < 0 || r.Intn(3) == 0 {
			fl |= os.O_CREATE
		}
		name := fmt.Sprintf("%s/f%d", base, s)
		m := NewModel()
		if init >= 0 {
			c := genContent(init, "random", uint64(s))
			if err := os.WriteFile(name, c, 0o666); err != nil {
				return err
			}
			m.N["/f"] = &MNode{Data: c, Perm: 0o666}
		}
		fh, oerr := os.OpenFile(name, fl, 0o644)
		mo, node := m.Open("/f", fl, 0o644)
		if (oerr == nil) != mo.OK {
			return fmt.Errorf("seq %d: OpenFile(%s) init=%d: os err=%v, model ok=%v", s, flagStr(fl), init, oerr, mo.OK)
		}
		if oerr != nil {
			continue
		}
		mh := NewMHandle(node, fl)
		var done []string
		for i := 0; i < 20; i++ {
			size := int64(len(node.Data))
			offs := []int64{-2, 0, size / 2, size, size + 3}
			k := []string{"read", "readat", "seek", "write", "writeat", "truncate"}[r.Intn(6)]
			switch k {
			case "read":
				if mh.PosUnk {
					continue
				}
				n := []int{0, 1, 7, int(size) + 5}[r.Intn(4)]
				buf := make([]byte, n)
				got, err := fh.Read(buf)
				ho := mh.DoRead(n)
				done = append(done, fmt.Sprintf("Read(%d)", n))
				if !ho.OK {
					if err == nil && n > 0 {
						return fmt.Errorf("seq %d %v: os.File Read succeeded, model refuses", s, done)
					}
					break
				}
				if n == 0 {
					break
				}
				if ho.N == 0 {
					if got != 0 || err != io.EOF {
						return fmt.Errorf("seq %d %v: os.File (%d,%v), model EOF", s, done, got, err)
					}
					break
				}
				if got != ho.N || !bytes.Equal(buf[:got], ho.Data) {
					return fmt.Errorf("seq %d %v: os.File read %d bytes, model %d", s, done, got, ho.N)
				}
			case "readat":
				n, off := []int{0, 1, 7, int(size) + 5}[r.Intn(4)], offs[r.Intn(5)]
				buf := make([]byte, n)
				got, err := fh.ReadAt(buf, off)
				ho := mh.DoReadAt(n, off)
				done = append(done, fmt.Sprintf("ReadAt(%d,%d)", n, off))
				if !ho.OK {
					if err == nil && n > 0 {
						return fmt.Errorf("seq %d %v: os.File ReadAt succeeded, model refuses", s, done)
					}
					break
				}
				if n > 0 && (got != ho.N || !bytes.Equal(buf[:got], ho.Data)) {
					return fmt.Errorf("seq %d %v: os.File ReadAt %d bytes, model %d (err %v)", s, done, got, ho.N, err)
				}
			case "seek":
				if mh.PosUnk && r.Intn(2) == 0 {
					continue
				}
				wh := r.Intn(3)
				if mh.PosUnk {
					wh = []int{0, 2}[r.Intn(2)]
				}
				off := offs[r.Intn(5)] - []int64{0, mh.Pos, size}[wh]
				pos, err := fh.Seek(off, wh)
				ho := mh.DoSeek(off, wh)
				done = append(done, fmt.Sprintf("Seek(%d,%d)", off, wh))
				if (err == nil) != ho.OK || (err == nil && pos != ho.Off) {
					return fmt.Errorf("seq %d %v: os.File Seek (%d,%v), model ok=%v off=%d", s, done, pos, err, ho.OK, ho.Off)
				}
			case "write":
				if mh.PosUnk {
					continue
				}
				d := genContent([]int{0, 1, 9, 600}[r.Intn(4)], "random", r.Uint64())
				if len(d) == 0 && !mh.Write {
					continue // a zero-length write on a handle without write access: the kernel accepts it, references differ
				}
				got, err := fh.Write(d)
				ho := mh.DoWrite(d)
				done = append(done, fmt.Sprintf("Write(%d)", len(d)))
				if (err == nil) != ho.OK || (err == nil && got != len(d)) {
					return fmt.Errorf("seq %d %v: os.File Write (%d,%v), model ok=%v", s, done, got, err, ho.OK)
				}
			case "writeat":
				d := genContent([]int{0, 1, 9, 600}[r.Intn(4)], "random", r.Uint64())
				off := offs[r.Intn(5)]
				if len(d) == 0 && !mh.Write {
					continue
				}
				_, err := fh.WriteAt(d, off)
				ho := mh.DoWriteAt(d, off)
				done = append(done, fmt.Sprintf("WriteAt(%d,%d)", len(d), off))
				if (err == nil) != ho.OK {
					return fmt.Errorf("seq %d %v: os.File WriteAt err=%v, model ok=%v", s, done, err, ho.OK)
				}
				if ho.OK {
					// pwrite keeps the cursor: the model marks it unknown because in-memory references move it; re-pin
					p, _ := fh.Seek(0, io.SeekCurrent)
					mh.Pos, mh.PosUnk = p, false
				}
			case "truncate":
				sz := offs[r.Intn(5)]
				err := fh.Truncate(sz)
				ho := mh.DoTruncate(sz)
				done = append(done, fmt.Sprintf("Truncate(%d)", sz))
				if (err == nil) != ho.OK {
					return fmt.Errorf("seq %d %v: os.File Truncate err=%v, model ok=%v", s, done, err, ho.OK)
				}
			}
			calls++
		}
		fh.Close()
		got, _ := os.ReadFile(name)
		if !bytes.Equal(got, node.Data) {
			return fmt.Errorf("seq %d %v (flags %s init %d): file has %d bytes, model %d", s, done, flagStr(fl), init, len(got), len(node.Data))
		}
	}
	fmt.Printf("  handle model vs os.File: %d calls compared\n", calls)
	return nil
}

// selftestNeedles: the C09 needle set must find its markers when nothing is encrypted.
func selftestNeedles() error {
	scratch, err := os.MkdirTemp("", "verif-selftest-n-")
	if err != nil {
		return err
	}
	defer os.RemoveAll(scratch)
	w := &Worker{Scratch: scratch, Tier: "quick"}
	classes := map[string]bool{}
	for i, cfg := range []Cfg{{Level: "fastest", RS: 20, WC: "file"}, {Sig: "pgp", Level: "fastest", RS: 20, WC: "file"}} {
		c := Case{ID: "selftest", Seed: uint64(77 + i)}
		c.P = []byte(fmt.Sprintf(`{"cfg":{"level":"fastest","rs":20,"wc":"file","sig":%q},"steps":40}`, cfg.Sig))
		res := markRunInner(c, w, true)
		if res.Verdict != "violation" {
			return fmt.Errorf("no marker was found on an unencrypted tape (%s): the needle set is broken", cfg)
		}
		for _, s := range res.Sets["leaks"] {
			classes[s] = true
		}
	}
	for _, want := range []string{"marker", "clear-text"} {
		if !classes[want] {
			return fmt.Errorf("needle class %q never hit on unencrypted tapes: %v", want, classes)
		}
	}
	fmt.Printf("  C09 needles on unencrypted tapes: classes found %v\n", classes)
	return nil
}

func init() {
	selfTests = append(selfTests,
		selfTest{"reference model vs kernel (afero.OsFs)", selftestModelVsOs},
		selfTest{"handle model vs os.File", selftestHandleVsOsFile},
		selfTest{"C09 needles find markers on unencrypted tapes", selftestNeedles},
	)
}
