package main

import (
	"time"
	"database/sql"
	"context"
	"encoding/json"
	"fmt"
	"os"
	"sort"
	"strings"
	"sync/atomic"
)

// C10: every call returns and leaves the drive free, even when something fails (single-fault enumeration).

type faultP struct {
	Cfg   Cfg `json:"cfg"`
	Steps int `json:"steps"`
}

var currentNote atomic.Value // what the worker is doing right now (printed by the watchdog / found in the log tail of a crash)

func note(format string, a ...any) {
	s := fmt.Sprintf(format, a...)
	currentNote.Store(s)
	stepBegin()
	fmt.Fprintln(os.Stderr, "NOTE", s)
}

func faultCases(prop, tier string, seed uint64) []Case {
	r := newRand(subSeed(seed, prop, tier))
	n, steps := 40, 10
	if tier == "thorough" {
		n, steps = 1200, 14
	}
	cfgs := someCfgs(r, 8)
	var cases []Case
	for i := 0; i < n; i++ {
		p := faultP{Cfg: cfgs[i%len(cfgs)], Steps: steps - 2 + r.Intn(5)}
		pb, _ := json.Marshal(p)
		cases = append(cases, Case{ID: fmt.Sprintf("c10-h%04d", i), Seed: subSeed(seed, prop, tier, fmt.Sprint(i)), Kind: "random", P: pb})
	}
	// explicit rejections
	pb, _ := json.Marshal(faultP{Cfg: Cfg{Level: "fastest", RS: 20, WC: "file"}})
	cases = append(cases, Case{ID: "c10-rejections-plain", Seed: 1, Kind: "rejections", P: pb})
	pb, _ = json.Marshal(faultP{Cfg: Cfg{Comp: "gzip", Level: "fastest", Enc: "age", Sig: "pgp", RS: 3, WC: "memory"}})
	cases = append(cases, Case{ID: "c10-rejections-pipeline", Seed: 2, Kind: "rejections", P: pb})
	return cases
}

var faultClasses = []string{"dwrite", "dwrite-short", "dread", "persist", "cache", "cachenew", "cacheclean", "src", "srcclose", "openw", "openr", "closew", "closer"}

type faultCtx struct {
	w    *Worker
	cfg  Cfg
	res  *Result
	seq  int
	kind string
}

// afterCall: locks must be free once the streaming goroutine (if any) has settled, and a probe call must complete.
func (fc *faultCtx) afterCall(rig *Rig, what string, op Op) bool {
	if held := rig.LocksSettled(); len(held) > 0 {
		fc.res.violate("c10|"+fc.kind+"|locks-held|"+what+"|"+op.K, fmt.Sprintf("[%s] %s: call %s returned but the instance still holds %v; the next call would block forever", fc.cfg, what, op, held))
		return false
	}
	// the drive is a file descriptor too: nothing below the instance's directory may stay open once the call has returned
	// (write-cache files of a handle whose Close failed, and destinations handed to Restore, are not the drive and are not judged)
	fds := OpenDescriptors(tapeDir(rig.Dir))
	for i := 0; i < 100 && len(fds) > 0; i++ { // a goroutine that is just finishing may still be between unlock and return
		time.Sleep(10 * time.Millisecond)
		fds = OpenDescriptors(tapeDir(rig.Dir))
	}
	if len(fds) > 0 {
		fc.res.violate("c10|"+fc.kind+"|drive-descriptor-left-open|"+what+"|"+op.K, fmt.Sprintf("[%s] %s: call %s returned and no lock is held, but the process still has the drive open (%v)", fc.cfg, what, op, fds))
		return false
	}
	fc.res.count("descriptor_checks", 1)
	// probe: one lookup and one mutating call must return (their outcome is not judged: the state after a fault is unspecified)
	fc.seq++
	note("probe after %s %s", what, op)
	_, _ = rig.FS.Stat("/")
	_ = rig.FS.Mkdir(fmt.Sprintf("/probe-%d", fc.seq), 0o755)
	if held := rig.LocksSettled(); len(held) > 0 {
		fc.res.violate("c10|"+fc.kind+"|locks-held-after-probe|"+what+"|"+op.K, fmt.Sprintf("[%s] %s: probe call after %s left %v held", fc.cfg, what, op, held))
		return false
	}
	fc.res.count("probes_completed", 1)
	return true
}

func faultRun(prop, tier string, c Case, w *Worker) (res Result) {
	var p faultP
	_ = json.Unmarshal(c.P, &p)
	cfg := p.Cfg
	fc := &faultCtx{w: w, cfg: cfg, res: &res, kind: c.Kind}
	res.setAdd("configs", cfg.String())
	if c.Kind == "rejections" {
		return rejectionRun(fc, c)
	}
	// 1. fault-free run: record the events each call reaches, snapshot the instance before each call
	dir := w.NewDir("c10")
	rig, err := NewRig(dir, cfg)
	if err != nil {
		res.Verdict, res.Msg = "inconclusive", "rig: "+err.Error()
		return
	}
	cfg = rig.Cfg
	fc.cfg = cfg
	srcSeams = rig.Seams
	if err := rig.Init(); err != nil {
		res.violate("c10|random|init", "Initialize: "+err.Error())
		return
	}
	gen := NewGen(newRand(c.Seed), GenOpts{Cfg: cfg, Batched: true, MaxLen: 3 * 512})
	tree, _ := WalkTree(rig.FS, false)
	type rec struct {
		op     Op
		snap   string
		counts map[string]int
	}
	var recs []rec
	var hops []Op
	for i := 0; i < p.Steps; i++ {
		op := gen.Next(tree)
		rig.LocksSettled()
		snap := w.NewDir("snap")
		if err := CloneDir(dir, snap, true); err != nil {
			res.Verdict, res.Msg = "inconclusive", err.Error()
			return
		}
		rig.Seams.ResetCounts()
		note("fault-free %s", op)
		_ = execOp(rig, op)
		res.count("calls_fault_free", 1)
		if !fc.afterCallNoProbe(rig, "fault-free", op) {
			rig.Close()
			return
		}
		recs = append(recs, rec{op: op, snap: snap, counts: rig.Seams.Counts()})
		hops = append(hops, op)
		tree, err = WalkTree(rig.FS, false)
		if err != nil {
			break
		}
	}
	// handle-level calls and a restore on whatever files exist now (appended to the history as two more calls)
	var filesNow []string
	for k, e := range tree {
		if e.Kind == "f" && !hasCodecSuffix(k) {
			filesNow = append(filesNow, k)
		}
	}
	sort.Strings(filesNow)
	if len(filesNow) > 0 {
		pick := filesNow[int(c.Seed%uint64(len(filesNow)))]
		for _, op := range []Op{{K: "hseq", A: pick, Len: 700, Dist: "text", DSeed: c.Seed}, {K: "restore", A: pick}} {
			rig.LocksSettled()
			snap := w.NewDir("snap")
			if err := CloneDir(dir, snap, true); err != nil {
				res.Verdict, res.Msg = "inconclusive", err.Error()
				return
			}
			rig.Seams.ResetCounts()
			note("fault-free %s", op)
			_ = execOp(rig, op)
			res.count("calls_fault_free", 1)
			res.count("calls_"+op.K, 1)
			if !fc.afterCallNoProbe(rig, "fault-free", op) {
				rig.Close()
				return
			}
			recs = append(recs, rec{op: op, snap: snap, counts: rig.Seams.Counts()})
			hops = append(hops, op)
		}
	}
	rig.LocksSettled()
	rig.Close()
	// 2. one re-run per reachable fault point
	var sample []string
	for ci, rc := range recs {
		for _, class := range faultClasses {
			base := class
			if class == "dwrite-short" {
				base = "dwrite"
			}
			n := rc.counts[base]
			for k := 1; k <= n; k++ {
				what := fmt.Sprintf("fault %s#%d in call %d", class, k, ci)
				if !fc.oneFault(rc.snap, rc.op, &Fault{Class: class, K: k}, what, false) {
					res.Detail = map[string]any{"cfg": cfg, "call": rc.op, "fault": class, "k": k, "history": opsUpTo(hops, ci)}
					return
				}
				res.count("fault_points_"+base, 1)
				// the same point as the first of a persistent failure: every later event on that resource fails as well
				if !fc.oneFault(rc.snap, rc.op, &Fault{Class: class, K: k, Sticky: true}, what+" (persistent)", false) {
					res.Detail = map[string]any{"cfg": cfg, "call": rc.op, "fault": class, "k": k, "persistent": true, "history": opsUpTo(hops, ci)}
					return
				}
				res.count("persistent_fault_points", 1)
				if len(sample) < 6 {
					sample = append(sample, fmt.Sprintf("%s at %s", what, rc.op))
				}
			}
		}
		// the index database itself refuses: another connection (a second process, a backup job) holds its write lock, resp. all of
		// it, for the duration of the call; afterwards the database is perfectly usable again
		for _, mode := range []string{"IMMEDIATE", "EXCLUSIVE"} {
			what := fmt.Sprintf("index database locked (BEGIN %s by another connection) during call %d", mode, ci)
			if !fc.lockedDB(rc.snap, rc.op, mode, what) {
				res.Detail = map[string]any{"cfg": cfg, "call": rc.op, "fault": "dblock-" + mode, "history": opsUpTo(hops, ci)}
				return
			}
			res.count("fault_points_db_locked", 1)
		}
		// the operating system refuses the drive in other ways: the path is a directory; the file is write-protected (immutable)
		if rc.counts["openw"]+rc.counts["openr"] > 0 {
			for _, mode := range []string{"isdir", "immutable"} {
				what := fmt.Sprintf("drive %s during call %d", mode, ci)
				ok, supported := fc.brokenDrive(rc.snap, rc.op, mode, what)
				if !supported {
					res.count("os_refusals_not_available_"+mode, 1)
					continue
				}
				if !ok {
					res.Detail = map[string]any{"cfg": cfg, "call": rc.op, "fault": "os-" + mode, "history": opsUpTo(hops, ci)}
					return
				}
				res.count("fault_points_os_"+mode, 1)
			}
		}
		// the drive cannot be opened at OS level for the duration of the call
		if rc.counts["openw"]+rc.counts["openr"] > 0 {
			what := fmt.Sprintf("drive directory missing during call %d", ci)
			if !fc.oneFault(rc.snap, rc.op, nil, what, true) {
				res.Detail = map[string]any{"cfg": cfg, "call": rc.op, "fault": "os-open", "history": opsUpTo(hops, ci)}
				return
			}
			res.count("fault_points_os_open", 1)
		}
	}
	// 3. opening: construct + Initialize over the final tape with the index absent (rebuild on open) and with the index present,
	// one re-run per event the fault-free open reaches
	for _, withIndex := range []bool{false, true} {
		od := w.NewDir("open0")
		if err := CloneDir(dir, od, withIndex); err != nil {
			res.Verdict, res.Msg = "inconclusive", err.Error()
			return
		}
		org, err := NewRig(od, cfg)
		if err != nil {
			res.Verdict, res.Msg = "inconclusive", "rig: "+err.Error()
			return
		}
		org.Seams.ResetCounts()
		note("fault-free open (index present=%v)", withIndex)
		oerr := org.Init()
		org.LocksSettled()
		counts := org.Seams.Counts()
		org.Close()
		if oerr != nil {
			res.count("fault_free_opens_failing", 1)
			continue
		}
		for _, class := range []string{"dread", "persist", "openr", "closer", "openw", "closew", "dwrite"} {
			for k := 1; k <= counts[class]; k++ {
				for _, sticky := range []bool{false, true} {
					what := fmt.Sprintf("fault %s#%d (persistent=%v) while opening, index present=%v", class, k, sticky, withIndex)
					d := w.NewDir("openf")
					if err := CloneDir(dir, d, withIndex); err != nil {
						res.Verdict, res.Msg = "inconclusive", err.Error()
						return
					}
					rg, err := NewRig(d, cfg)
					if err != nil {
						res.Verdict, res.Msg = "inconclusive", "rig: "+err.Error()
						return
					}
					note("%s", what)
					rg.Seams.Arm(&Fault{Class: class, K: k, Sticky: sticky})
					ierr := rg.Init()
					fired := rg.Seams.Disarm()
					if fired {
						res.count("fault_points_fired", 1)
						res.count("open_fault_points", 1)
						if ierr != nil {
							res.count("opens_failing_on_fault", 1)
						}
						if held := rg.LocksSettled(); len(held) > 0 {
							res.violate("c10|"+fc.kind+"|locks-held|open|"+class, fmt.Sprintf("[%s] %s: Initialize returned (%v) but the instance still holds %v", cfg, what, ierr, held))
							res.Detail = map[string]any{"cfg": cfg, "fault": class, "k": k, "persistent": sticky, "index_present": withIndex, "history": opNames(hops)}
							rg.Close()
							return
						}
						// a second attempt on the same instance must return as well
						_, _ = rg.S.Initialize("/", os.ModePerm)
						if held := rg.LocksSettled(); len(held) > 0 {
							res.violate("c10|"+fc.kind+"|locks-held-after-probe|open|"+class, fmt.Sprintf("[%s] %s: a second Initialize left %v held", cfg, what, held))
							res.Detail = map[string]any{"cfg": cfg, "fault": class, "k": k, "persistent": sticky, "index_present": withIndex, "history": opNames(hops)}
							rg.Close()
							return
						}
					}
					rg.Close()
				}
			}
		}
	}
	var kinds []string
	for _, rc := range recs {
		kinds = append(kinds, rc.op.K)
	}
	sort.Strings(kinds)
	res.NonTrivial = res.Counters["fault_points_fired"] >= 20
	res.Key = sum([]byte(cfg.String() + strings.Join(opNames(hops), "\n")))
	res.Sample = map[string]any{"cfg": cfg.String(), "history": opNames(hops), "fault_points": sample, "fired": res.Counters["fault_points_fired"]}
	return
}

func opsUpTo(ops []Op, i int) []string {
	if i+1 <= len(ops) {
		ops = ops[:i+1]
	}
	return opNames(ops)
}

func (fc *faultCtx) afterCallNoProbe(rig *Rig, what string, op Op) bool {
	if held := rig.LocksSettled(); len(held) > 0 {
		fc.res.violate("c10|"+fc.kind+"|locks-held|"+what+"|"+op.K, fmt.Sprintf("[%s] %s: call %s returned but the instance still holds %v; the next call would block forever", fc.cfg, what, op, held))
		return false
	}
	return true
}

// oneFault re-opens the snapshot taken before the call, arms one fault, runs the call and checks C10's conclusion.
func (fc *faultCtx) oneFault(snap string, op Op, f *Fault, what string, breakDrive bool) bool {
	d := fc.w.NewDir("flt")
	if err := CloneDir(snap, d, true); err != nil {
		fc.res.Verdict, fc.res.Msg = "inconclusive", err.Error()
		return false
	}
	rig, err := NewRig(d, fc.cfg)
	if err != nil {
		fc.res.Verdict, fc.res.Msg = "inconclusive", "rig: "+err.Error()
		return false
	}
	defer rig.Close()
	srcSeams = rig.Seams
	if err := rig.Init(); err != nil {
		fc.res.Verdict, fc.res.Msg = "inconclusive", "reopen snapshot: "+err.Error()
		return false
	}
	note("%s: %s", what, op)
	if breakDrive {
		if err := rig.BreakDrive(); err != nil {
			fc.res.Verdict, fc.res.Msg = "inconclusive", err.Error()
			return false
		}
	} else {
		rig.Seams.Arm(f)
	}
	out := execOp(rig, op)
	fired := true
	if breakDrive {
		rig.LocksSettled()
		if err := rig.RestoreDrive(); err != nil {
			fc.res.Verdict, fc.res.Msg = "inconclusive", err.Error()
			return false
		}
	} else {
		fired = rig.Seams.Disarm()
	}
	if !fired {
		fc.res.count("fault_points_not_reached_on_rerun", 1)
		return true
	}
	fc.res.count("fault_points_fired", 1)
	if out.OK {
		fc.res.count("calls_succeeding_despite_fault", 1)
	} else {
		fc.res.count("calls_failing_on_fault", 1)
	}
	return fc.afterCall(rig, what, op)
}

// brokenDrive re-runs the call while the operating system refuses the drive in the given way, undoes that and checks C10's conclusion.
func (fc *faultCtx) brokenDrive(snap string, op Op, mode, what string) (ok, supported bool) {
	d := fc.w.NewDir("brk")
	if err := CloneDir(snap, d, true); err != nil {
		fc.res.Verdict, fc.res.Msg = "inconclusive", err.Error()
		return false, true
	}
	rig, err := NewRig(d, fc.cfg)
	if err != nil {
		fc.res.Verdict, fc.res.Msg = "inconclusive", "rig: "+err.Error()
		return false, true
	}
	defer rig.Close()
	srcSeams = rig.Seams
	if err := rig.Init(); err != nil {
		fc.res.Verdict, fc.res.Msg = "inconclusive", "reopen snapshot: "+err.Error()
		return false, true
	}
	rig.LocksSettled()
	restore, err := rig.BreakDriveMode(mode)
	if err != nil {
		if err == errBreakUnsupported {
			return true, false
		}
		fc.res.Verdict, fc.res.Msg = "inconclusive", "breaking the drive: "+err.Error()
		return false, true
	}
	note("%s: %s", what, op)
	out := execOp(rig, op)
	rig.LocksSettled()
	if err := restore(); err != nil {
		fc.res.Verdict, fc.res.Msg = "inconclusive", "restoring the drive: "+err.Error()
		return false, true
	}
	fc.res.count("fault_points_fired", 1)
	if out.OK {
		fc.res.count("calls_succeeding_despite_fault", 1)
	} else {
		fc.res.count("calls_failing_on_fault", 1)
	}
	return fc.afterCall(rig, what, op), true
}

// lockedDB re-runs the call while a second connection holds a lock on the index database, releases it and checks C10's conclusion.
func (fc *faultCtx) lockedDB(snap string, op Op, mode, what string) bool {
	d := fc.w.NewDir("dbl")
	if err := CloneDir(snap, d, true); err != nil {
		fc.res.Verdict, fc.res.Msg = "inconclusive", err.Error()
		return false
	}
	rig, err := NewRig(d, fc.cfg)
	if err != nil {
		fc.res.Verdict, fc.res.Msg = "inconclusive", "rig: "+err.Error()
		return false
	}
	defer rig.Close()
	srcSeams = rig.Seams
	if err := rig.Init(); err != nil {
		fc.res.Verdict, fc.res.Msg = "inconclusive", "reopen snapshot: "+err.Error()
		return false
	}
	other, err := sql.Open("sqlite", rig.DB)
	if err != nil {
		fc.res.Verdict, fc.res.Msg = "inconclusive", "second connection: "+err.Error()
		return false
	}
	defer other.Close()
	ctx := context.Background()
	conn, err := other.Conn(ctx)
	if err != nil {
		fc.res.Verdict, fc.res.Msg = "inconclusive", "second connection: "+err.Error()
		return false
	}
	defer conn.Close()
	if _, err := conn.ExecContext(ctx, "BEGIN "+mode); err != nil {
		fc.res.Verdict, fc.res.Msg = "inconclusive", "locking the index database: "+err.Error()
		return false
	}
	note("%s: %s", what, op)
	out := execOp(rig, op)
	if _, err := conn.ExecContext(ctx, "ROLLBACK"); err != nil {
		fc.res.Verdict, fc.res.Msg = "inconclusive", "unlocking the index database: "+err.Error()
		return false
	}
	_ = conn.Close()
	_ = other.Close()
	fc.res.count("fault_points_fired", 1)
	if out.OK {
		fc.res.count("calls_succeeding_despite_fault", 1)
	} else {
		fc.res.count("calls_failing_on_fault", 1)
	}
	return fc.afterCall(rig, what, op)
}

// rejectionRun: calls that are rejected on their precondition must leave the drive free.
func rejectionRun(fc *faultCtx, c Case) (res Result) {
	res = *fc.res
	fc.res = &res
	dir := fc.w.NewDir("c10r")
	rig, err := NewRig(dir, fc.cfg)
	if err != nil {
		res.Verdict, res.Msg = "inconclusive", "rig: "+err.Error()
		return
	}
	defer rig.Close()
	fc.cfg = rig.Cfg
	srcSeams = nil
	if err := rig.Init(); err != nil {
		res.violate("c10|rejections|init", "Initialize: "+err.Error())
		return
	}
	setup := []Op{{K: "mkdir", A: "/d", Perm: 0o755}, {K: "create", A: "/d/f", Len: 600, Dist: "text", DSeed: 3}, {K: "create", A: "/g", Len: 10, Dist: "text", DSeed: 4}}
	for _, op := range setup {
		if out := execOp(rig, op); !out.OK {
			res.violate("c10|rejections|setup", fmt.Sprintf("setup %s failed: %s", op, out.Err))
			return
		}
	}
	rej := []Op{
		{K: "removeall", A: "/missing"}, {K: "remove", A: "/missing"}, {K: "remove", A: "/d"}, {K: "rename", A: "/missing", B: "/x"}, {K: "rename", A: "/g", B: "/missing/x"},
		{K: "rename", A: "/d", B: "/d/sub"}, {K: "chmod", A: "/missing", Perm: 0o600}, {K: "chown", A: "/missing", Uid: 1, Gid: 1}, {K: "chtimes", A: "/missing", At: 1e18, Mt: 1e18},
		{K: "mkdir", A: "/missing/x", Perm: 0o755}, {K: "mkdir", A: "/d", Perm: 0o755}, {K: "mkdir", A: "/g/x", Perm: 0o755}, {K: "mkdirall", A: "/g/x/y", Perm: 0o755},
		{K: "create", A: "/missing/f", Len: 5, Dist: "text"}, {K: "create", A: "/g/f", Len: 5, Dist: "text"}, {K: "write", A: "/d", Flag: os.O_WRONLY, Len: 5, Dist: "text"},
		{K: "write", A: "/nofile", Flag: os.O_WRONLY, Len: 5, Dist: "text"}, {K: "read", A: "/missing"}, {K: "read", A: "/d"}, {K: "list", A: "/g", N: -1}, {K: "stat", A: "/missing"},
		{K: "opdelete", A: "/missing"}, {K: "opmove", A: "/missing", B: "/y"}, {K: "opmove", A: "/g", B: "/g"}, {K: "update", A: "/missing", Len: 5, Dist: "text", Perm: 0o600},
		// symbolic links that form a cycle, and one that points at itself: every lookup through them has to come back
		{K: "symlink", A: "/lb", B: "/la"}, {K: "symlink", A: "/la", B: "/lb"}, {K: "stat", A: "/la"}, {K: "read", A: "/lb"}, {K: "chmod", A: "/la", Perm: 0o600}, {K: "list", A: "/", N: -1},
		{K: "rename", A: "/la", B: "/lc"}, {K: "remove", A: "/lb"}, {K: "symlink", A: "/ls", B: "/ls"}, {K: "stat", A: "/ls"}, {K: "remove", A: "/ls"}, {K: "mkdir", A: "/after-links", Perm: 0o755},
	}
	for _, op := range rej {
		note("rejection %s", op)
		out := execOp(rig, op)
		res.count("rejection_calls", 1)
		if !out.OK {
			res.count("rejection_calls_rejected", 1)
		}
		if !fc.afterCall(rig, "rejected call", op) {
			res.Detail = map[string]any{"cfg": fc.cfg, "call": op}
			return
		}
	}
	// unsupported compression level
	if fc.cfg.Comp != "" {
		bad := fc.cfg
		bad.Level = "no-such-level"
		d2 := fc.w.NewDir("c10lvl")
		rg2, err := NewRig(d2, bad)
		if err == nil {
			defer rg2.Close()
			note("unsupported level: Initialize + Create + Write")
			if err := rg2.Init(); err == nil {
				op := Op{K: "create", A: "/lvl", Len: 700, Dist: "text", DSeed: 9}
				out := execOp(rg2, op)
				res.count("rejection_calls", 1)
				if !out.OK {
					res.count("rejection_calls_rejected", 1)
				}
				fc.cfg = bad
				if !fc.afterCall(rg2, "unsupported compression level", op) {
					return
				}
			}
		}
	}
	res.NonTrivial = true
	res.Key = "rejections-" + fc.cfg.String()
	res.Sample = map[string]any{"cfg": fc.cfg.String(), "rejections": opNames(rej)}
	return
}

func init() {
	register(&Engine{Name: "faults", Props: []string{"C10"}, Cases: faultCases, Run: faultRun})
	propMeta["C10"] = PropMeta{Level: "fault_enumeration",
		Rule: "per case one generated history (fs-level and batched calls, then one handle driven through ReadAll / Seek / Write / Sync / WriteAt / Truncate / WriteString / Stat / Close and one Operations.Restore) is run fault-free while the seams count, per call, the drive writes, drive reads, index-store calls, write-cache calls, source reads and drive opens it reaches; then the call is re-run from a snapshot of the instance taken before it once for every k up to each count with exactly that event failing (error, and short write for drive writes; closing the drive writer/reader, the write-cache clean-up and the source's Close report an error after doing their work; every second close fault of the drive is produced inside the drive manager - its descriptor is closed under it, so that its own close reports a real error), once more per point as the first event of a PERSISTENT failure (from that event on every drive open / read / write / close - resp. every write-cache call, every source call, every index-store call - fails until the call returns), once with the drive directory missing, once with the drive path being a directory and once with the drive file write-protected by the immutable attribute (real EISDIR / EPERM from the operating system, not a wrapper); once each with the index database's write lock resp. exclusive lock held by a second connection for the duration of the call (the real SQLite file refuses, not a wrapper) and released afterwards; finally construct + Initialize over the final tape, with the index absent (rebuild on open) and present, is re-run once per drive / index-store event it reaches, transient and persistent, followed by a second Initialize on the same instance; after each: the call returned, the process lives, no lock is held once the streaming goroutine has settled (lock hooks), the process has no descriptor on the drive file any more (/proc/self/fd, bounded wait), and a probe lookup + mutating call return; plus two cases of explicit precondition rejections and lookups through symbolic links that form a cycle; non-trivial = at least 20 fault points fired; distinct = distinct (configuration, history)",
		Assumptions: []string{"the state after a fault is not judged", "re-runs start from a reopened copy of the instance as it was before the call (index + tape), not from a replay of the whole history", "hang verdicts come from the no-progress watchdog classified by goroutine state"}}
}
