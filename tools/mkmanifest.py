#!/usr/bin/env python3
# Regenerates /verif/MANIFEST.json from the table below (one place to edit).
import json,subprocess
props=[json.loads(l)['id'] for l in open('/verif/properties.jsonl')]
hooks=subprocess.run(['git','-C','/repo','log','--format=%H','--grep=^verif:'],capture_output=True,text=True).stdout.split()
C={}
def add(pid,engine,cat,text,note,tech,ref):
    C[pid]=dict(property_id=pid,quick_cmd=f"bin/check {pid} quick",thorough_cmd=f"bin/check {pid} thorough",evidence_file=f"/verif/evidence/{pid}.json",
      replay_cmd_template="bin/check replay {path}",engine=engine,level_claimed=dict(category=cat,text=text,design_ref=ref),level_note=note,technique=tech)
add('C01','seqhist','exploration',"Held on every prefix of every generated history: after each call the tree and contents seen through a fresh instance over a copy of the index, and through a fresh instance that rebuilds the index from a copy of the tape alone, equal those of the running instance (STFS compared with STFS, no model). Randomised exploration of histories x pipeline configurations, not exhaustive.","Trusts the harness's tree walk (afero API only). 'Fresh process' approximated by a fresh object graph over copied files. Symlinks only in the witness of open finding symlink-lost-after-rebuild.","runtime monitor: rebuild/reopen differential after every call of generated histories","DESIGN.md 4 C01")
add('C02','seqhist','exploration',"Every call of every generated history is compared with a POSIX reference model (outcome, returned data, full tree incl. permission bits, owners, timestamps), the model itself being validated against the kernel via afero.OsFs in setup. Randomised exploration with a hostile name universe and forced name reuse.","Reference-ambiguous shapes accept either outcome; codec-suffixed file names under an active codec only in the witness of open finding codec-suffix-name.","runtime monitor: differential against an executable reference model after every call","DESIGN.md 4 C02")
add('C03','matrix','exploration',"Every pipeline configuration in the case list (thorough: all 216 compression x level x encryption x signature pipelines, both write caches, six record sizes, tape-mode writer) round-trips 19 files of the boundary size classes byte-exactly through File.Read, Operations.Restore and recovery.Fetch on the live and on a rebuilt instance; Stat size == length.","Contents bounded (3 records + 7 bytes); tape-mode codec parameters exercised over a regular file by flagging the writer non-regular and decoding what it wrote with the standard decoders.","runtime monitor: byte-equality oracle over a configuration x content-class matrix","DESIGN.md 4 C03")
add('C04','seqhist','exploration',"After every call: each index row's position is the start of a record found by an independent archive/tar scan and is the record that last carried the entry's content according to an independent record interpreter; block < record size; last-known >= content position; Fetch at the position returns the reference content; last-indexed == final record; recovery.Query positions == scan positions.","Trusts archive/tar and the harness's record interpreter (cross-checked against the index on every history).","runtime monitor: index rows vs independent tape scan + record interpreter after every call","DESIGN.md 4 C04")
add('C05','seqhist','exploration',"Around every call of every history: the drive file keeps its previous bytes as a prefix, failing calls append nothing, length is a multiple of 512, an independent tar reader iterates all records, and (plain configurations) the member bytes of each live file's content record equal the file's content.","Histories contain no explicit overwrite/initialise (the stated exception).","runtime monitor: byte-prefix invariant + independent tar scan around every call","DESIGN.md 4 C05")
add('C07','seqhist','exploration',"At the end of every history, for every (or sampled) record prefix j: the index of the first j records, then a non-wiping replay of the whole tape: no error, tree equal to a from-scratch rebuild, and another pass changes no row (j=R: copy of the live index).","Prefixes are cut at record boundaries found by the harness's scan.","runtime monitor: replay-convergence differential over record prefixes","DESIGN.md 4 C07")
add('C12','seqhist','exploration',"For every Remove/RemoveAll/Rename/Operations.Delete/Move in histories over the wildcard/prefix alphabet: model-independent set algebra on the observed trees before/after (nothing outside the subtree touched, nothing inside left, moved subtree identical, into-own-subtree refused), and the same effect after a rebuild from the tape.","Trusts the tree walk.","runtime monitor: subtree set-algebra oracle on observed trees","DESIGN.md 4 C12")
add('C13','seqhist','exploration',"After every call: live index rows == entries reachable by listing from the root; parents are live directories; Readdir(-1) lists exactly the children once; Readdirnames agrees; count-limited listings stay within bound and within the children; every listed name can be stat-ed and opened with matching kind and size.","Rows are read through the harness's own read-only sqlite connection at quiescent points.","runtime monitor: namespace invariants (listing <=> lookup <=> rows) after every call","DESIGN.md 4 C13")
import os
extra='/verif/tools/manifest_extra.json'
m=dict(version=1,
 setup_cmd="bin/check build && bin/vcheck selftest",
 hooks=dict(guard="verif",enable="go build -tags verif (harness module /verif/harness replaces github.com/pojntfx/stfs => /repo, so every check compiles /repo's working tree)",
   baseline_off_cmd="/verif/tools/baseline.sh /repo",source_commits=hooks,add_only=True),
 engines=[dict(name="seqhist",path="harness/eng_seqhist.go",serves_properties=["C01","C02","C04","C05","C07","C12","C13"],kind_free_text="generated call histories with per-call monitors"),
          dict(name="matrix",path="harness/eng_matrix.go",serves_properties=["C03"],kind_free_text="configuration x content matrix")],
 checks=[],not_applicable=[],
 notes="All checks: exit 0 held / 1 + VIOLATION line / 2 inconclusive (harness or machine problem, never a verdict). KNOWN_FINDINGS.txt lists open findings (printed as KNOWN-FINDING) and repaired ones (fixed:).")
if os.path.exists(extra):
    ex=json.load(open(extra))
    for c in ex.get('checks',[]): C[c['property_id']]=c
    m['engines']+=ex.get('engines',[])
EXT=" The workload was widened in three later rounds (scale, content that looks like tape structure, other entry points, OS-level and database-level refusals, foreign-archive features, restarts, second writers ...): the complete rule as it runs is the `rule` field of the evidence file, the classes and why they were added are in DESIGN.md 11.2 and 11.5."
for p in props:
    if p in C:
        if EXT not in C[p]['level_claimed']['text']: C[p]['level_claimed']['text']+=EXT
        m['checks'].append(C[p])
        continue
    if False: pass
    else: m['not_applicable'].append(dict(property_id=p,reason="check not built yet (work in progress; planned monitor in DESIGN.md section 4)"))
json.dump(m,open('/verif/MANIFEST.json','w'),indent=1)
print('claimed',[c['property_id'] for c in m['checks']])
