package main

import (
	"errors"
	"io"
	"regexp"
	"encoding/json"
	"fmt"
	"os"
	"path"
	"runtime"
	"sort"
	"strings"
	"sync"
	"sync/atomic"
	"time"

	"github.com/anishathalye/porcupine"
	"github.com/spf13/afero"
)

// C11: concurrent callers see a linearizable, race-free filesystem.
// The binary that runs this engine is built with -race (bin/check C11); a race report kills the worker and is attributed to the case.

type concP struct {
	Cfg      Cfg  `json:"cfg"`
	Clients  int  `json:"clients"`
	PerCl    int  `json:"per_client"`
	Reopened bool `json:"reopened"` // run the clients against an instance whose index was rebuilt from the tape (root "")
	Procs    int  `json:"procs"`
	Log      bool `json:"log"` // all clients also append records through ONE shared O_APPEND handle
	Witness  string `json:"witness,omitempty"`
	Watch    bool   `json:"watch,omitempty"` // directory handles opened BEFORE the clients start; some clients only list through them
}

// COp is one API-level call of a client program. Composite file writes are three calls (create, hwrite, hclose).
type COp struct {
	K    string `json:"k"`
	A    string `json:"a,omitempty"`
	B    string `json:"b,omitempty"`
	Perm uint32 `json:"perm,omitempty"`
	Uid  int    `json:"uid,omitempty"`
	Gid  int    `json:"gid,omitempty"`
	T    int64  `json:"t,omitempty"`
	Data string `json:"data,omitempty"`
	Cl   int    `json:"cl"`
}

func (o COp) String() string {
	switch o.K {
	case "rename":
		return fmt.Sprintf("c%d:rename(%s,%s)", o.Cl, o.A, o.B)
	case "hwrite":
		return fmt.Sprintf("c%d:write(%d bytes)", o.Cl, len(o.Data))
	case "excl":
		return fmt.Sprintf("c%d:openfile(%s,CREATE|EXCL)+close", o.Cl, o.A)
	case "logwrite":
		return fmt.Sprintf("c%d:sharedhandle.write(%q)", o.Cl, o.Data)
	case "logclose":
		return "sharedhandle.close"
	case "hclose":
		return fmt.Sprintf("c%d:close", o.Cl)
	case "snapshot":
		return "final-tree"
	}
	return fmt.Sprintf("c%d:%s(%s)", o.Cl, o.K, o.A)
}

type COut struct {
	OK    bool     `json:"ok"`
	Err   string   `json:"err,omitempty"`
	Kind  string   `json:"kind,omitempty"`
	Size  int64    `json:"size,omitempty"`
	Perm  uint32   `json:"perm,omitempty"`
	Uid   int      `json:"uid,omitempty"`
	Sum   string   `json:"sum,omitempty"`
	Names []string `json:"names,omitempty"`
	Tree  Tree     `json:"tree,omitempty"`
}

func concCases(prop, tier string, seed uint64) []Case {
	r := newRand(subSeed(seed, prop, tier))
	n := 150
	if tier == "thorough" {
		n = 4000
	}
	cfgs := []Cfg{{Level: "fastest", RS: 20, WC: "file"}, {Level: "fastest", RS: 1, WC: "memory"}, {Comp: "gzip", Level: "fastest", RS: 3, WC: "file"}, {Enc: "age", Sig: "minisign", Level: "fastest", RS: 7, WC: "file"}, {Comp: "zstandard", Enc: "pgp", Sig: "pgp", Level: "fastest", RS: 2, WC: "memory"}}
	var cases []Case
	pb, _ := json.Marshal(concP{Cfg: cfgs[0], Clients: 2, PerCl: 2, Procs: 4, Witness: "partial-read-holds-drive"})
	cases = append(cases, Case{ID: "c11-witness-partial-read-holds-drive", Seed: 3, Kind: "witness:partial-read-holds-drive", P: pb})
	for i := 0; i < n; i++ {
		p := concP{Cfg: cfgs[i%len(cfgs)], Clients: 2 + r.Intn(7), PerCl: 3 + r.Intn(4), Reopened: i%3 == 1, Procs: []int{2, 4, 16}[i%3], Log: i%2 == 0}
		if p.Clients*p.PerCl > 30 {
			p.PerCl = 30 / p.Clients
		}
		pb, _ := json.Marshal(p)
		cases = append(cases, Case{ID: fmt.Sprintf("c11-h%05d", i), Seed: subSeed(seed, prop, tier, fmt.Sprint(i)), Kind: "random", P: pb})
	}
	// watchers: every client holds directory handles from before the concurrent phase; every second client only lists through
	// them while the others make, rename (also onto existing directories), and remove directories - calls that are several index
	// updates each; a listing has to be the directory at ONE moment of some sequential order, never a state in between
	nw := 60
	if tier == "thorough" {
		nw = 1500
	}
	for i := 0; i < nw; i++ {
		p := concP{Cfg: cfgs[i%len(cfgs)], Clients: 2 + r.Intn(5), PerCl: 5 + r.Intn(4), Reopened: i%4 == 1, Procs: []int{2, 4, 16}[i%3], Watch: true}
		if p.Clients*p.PerCl > 30 {
			p.PerCl = 30 / p.Clients
		}
		pb, _ := json.Marshal(p)
		cases = append(cases, Case{ID: fmt.Sprintf("c11-w%05d", i), Seed: subSeed(seed, prop, tier, "watch", fmt.Sprint(i)), Kind: "random", P: pb})
	}
	// one read-only handle shared by all clients (no writer in these histories: a partly read handle keeps the drive, open finding)
	nrd := 16
	if tier == "thorough" {
		nrd = 300
	}
	for i := 0; i < nrd; i++ {
		pb, _ := json.Marshal(concP{Cfg: cfgs[i%len(cfgs)], Clients: 3 + r.Intn(6), PerCl: 6 + r.Intn(10), Witness: "", Log: false, Reopened: false, Procs: 0})
		cases = append(cases, Case{ID: fmt.Sprintf("c11-rd%04d", i), Seed: subSeed(seed, prop, tier, "rd", fmt.Sprint(i)), Kind: "shared-read-handle", P: pb})
	}
	return cases
}

// ---- sequential model for porcupine -------------------------------------------------------------

type openH struct {
	Path string
	Buf  string
	Had  bool // a write happened (content is replaced at close); Create on a new file commits "" as well
}

type cState struct {
	M    *Model
	Open map[int]openH
	key  string
}

func (s *cState) Key() string {
	if s.key != "" {
		return s.key
	}
	var parts []string
	for p, n := range s.M.N {
		k := "f"
		if n.Dir {
			k = "d"
		}
		parts = append(parts, fmt.Sprintf("%s|%s|%s|%o|%d|%d|%d", p, k, sum(n.Data), n.Perm, n.Uid, n.Gid, n.Mtime))
	}
	sort.Strings(parts)
	var os_ []string
	for c, h := range s.Open {
		os_ = append(os_, fmt.Sprintf("%d:%s:%s:%v", c, h.Path, sum([]byte(h.Buf)), h.Had))
	}
	sort.Strings(os_)
	s.key = strings.Join(parts, ";") + "#" + strings.Join(os_, ";")
	return s.key
}

func (s *cState) clone() *cState {
	c := &cState{M: s.M.Clone(), Open: map[int]openH{}}
	for k, v := range s.Open {
		c.Open[k] = v
	}
	return c
}

func entryOfNode(n *MNode) (string, int64) {
	if n.Dir {
		return "d", 0
	}
	return "f", int64(len(n.Data))
}

// concStep applies one call to the model state and says whether the recorded output is acceptable.
func concStep(st *cState, in COp, out COut) (bool, *cState) {
	switch in.K {
	case "stat":
		n, _ := st.M.lookup(in.A)
		if n == nil {
			return !out.OK, st
		}
		k, sz := entryOfNode(n)
		if !out.OK || out.Kind != k {
			return false, st
		}
		if h, open := openOn(st, in.A); open && h {
			return true, st // size of a file that is open for writing is "don't care" (write-back)
		}
		return (k == "d" || out.Size == sz) && out.Perm == n.Perm && (n.Uid == 0 || out.Uid == n.Uid), st
	case "list", "hlist":
		n, _ := st.M.lookup(in.A)
		if n == nil || !n.Dir {
			return !out.OK, st
		}
		names := st.M.directChildren(in.A)
		sort.Strings(names)
		return out.OK && strings.Join(names, "\x00") == strings.Join(out.Names, "\x00"), st
	case "read":
		n, _ := st.M.lookup(in.A)
		if n == nil || n.Dir {
			return !out.OK, st
		}
		return out.OK && out.Sum == sum(n.Data), st
	case "snapshot":
		want := st.M.Tree()
		if len(want) != len(out.Tree) {
			return false, st
		}
		for p, e := range want {
			g, ok := out.Tree[p]
			if !ok || g.Kind != e.Kind || g.Size != e.Size || g.Sum != e.Sum || g.Perm != e.Perm {
				return false, st
			}
		}
		return true, st
	}
	// mutating calls work on a copy
	ns := st.clone()
	var mo MOut
	switch in.K {
	case "mkdir":
		mo = ns.M.Mkdir(in.A, in.Perm)
	case "mkdirall":
		mo = ns.M.MkdirAll(in.A, in.Perm)
	case "remove":
		mo = ns.M.Remove(in.A)
	case "removeall":
		mo = ns.M.RemoveAll(in.A)
	case "rename":
		mo = ns.M.Rename(in.A, in.B)
		if mo.Amb && out.OK && in.A != in.B {
			if n, ok := ns.M.N[in.B]; ok && n.Dir {
				ns.M.RenameReplaceEmptyDir(in.A, in.B)
			}
			return true, ns
		}
	case "chmod":
		mo = ns.M.Chmod(in.A, in.Perm)
	case "chown":
		mo = ns.M.Chown(in.A, in.Uid, in.Gid)
	case "chtimes":
		mo = ns.M.Chtimes(in.A, in.T, in.T)
	case "excl":
		// lock-file idiom: OpenFile(O_CREATE|O_EXCL) + Close; exactly one of any number of concurrent callers may win
		if o, pok := ns.M.parentOK(in.A); !pok {
			mo = o
			break
		}
		if _, exists := ns.M.N[in.A]; exists {
			mo = fail("exists")
			break
		}
		ns.M.N[in.A] = &MNode{Perm: 0o644, Data: []byte{}}
		mo = ok()
	case "create":
		if o, pok := ns.M.parentOK(in.A); !pok {
			mo = o
			break
		}
		n, exists := ns.M.N[in.A]
		if exists && n.Dir {
			mo = fail("is a directory")
			break
		}
		if !exists {
			ns.M.N[in.A] = &MNode{Perm: 0o666, Data: []byte{}}
		}
		ns.Open[in.Cl] = openH{Path: in.A, Had: exists && len(n.Data) > 0} // truncation of an existing non-empty file is committed at close
		mo = ok()
	case "hwrite":
		h, open := ns.Open[in.Cl]
		if !open {
			return !out.OK, st
		}
		h.Buf += in.Data
		h.Had = true
		ns.Open[in.Cl] = h
		mo = ok()
	case "logwrite":
		h, open := ns.Open[-1]
		if !open {
			return !out.OK, st
		}
		h.Buf += in.Data
		h.Had = true
		ns.Open[-1] = h
		mo = ok()
	case "logclose":
		h, open := ns.Open[-1]
		if !open {
			return !out.OK, st
		}
		delete(ns.Open, -1)
		if n, ok2 := ns.M.N[h.Path]; ok2 && h.Had {
			n.Data = []byte(h.Buf)
		}
		if n, ok2 := ns.M.N[h.Path]; ok2 && in.Data != "" {
			// the appends themselves are judged by the record monitor (logMonitor), which also hands over the content they produced
			n.Data = []byte(in.Data)
		}
		mo = ok()
	case "hclose":
		h, open := ns.Open[in.Cl]
		if !open {
			return !out.OK, st
		}
		delete(ns.Open, in.Cl)
		if h.Had {
			if n, ok2 := ns.M.N[h.Path]; ok2 && !n.Dir {
				n.Data = []byte(h.Buf)
			}
		}
		mo = ok()
	default:
		return false, st
	}
	if mo.Amb {
		return true, st.ifOK(out.OK, ns)
	}
	if mo.OK != out.OK {
		return false, st
	}
	if !mo.OK {
		return true, st
	}
	return true, ns
}

func (s *cState) ifOK(okk bool, ns *cState) *cState {
	if okk {
		return ns
	}
	return s
}

func openOn(st *cState, p string) (bool, bool) {
	for _, h := range st.Open {
		if h.Path == p {
			return true, true
		}
	}
	return false, false
}

var concModel = porcupine.Model{
	Init: func() interface{} { return nil }, // replaced per history
	Step: func(state, input, output interface{}) (bool, interface{}) {
		ok2, ns := concStep(state.(*cState), input.(COp), output.(COut))
		return ok2, ns
	},
	Equal: func(a, b interface{}) bool { return a.(*cState).Key() == b.(*cState).Key() },
	DescribeOperation: func(input, output interface{}) string {
		o := output.(COut)
		r := "ok"
		if !o.OK {
			r = "err:" + o.Err
		}
		return input.(COp).String() + " -> " + r
	},
}

// ---- workload ---------------------------------------------------------------------------------

var stableDirs = []string{"/s1", "/s2"}
var stableFiles = []string{"/s1/alpha", "/s1/beta", "/s2/gamma"}
var lockNames = []string{"/s1/lock", "/s2/lock", "/lock%"}
var watchDirs = []string{"/", "/", "/s1"}
var watchNames = []string{"/v_", "/v%", "/va", "/s1/v_", "/s1/va"}
var volatileNames = []string{"/v_", "/v%", "/va", "/vab", "/s1/v_", "/s2/va"}

func genPrograms(r interface{ Intn(int) int }, p concP) [][]COp {
	progs := make([][]COp, p.Clients)
	for c := 0; c < p.Clients; c++ {
		var ops []COp
		nfile := 0
		var mine []string // private files that are closed
		for p.Watch && (len(ops) < p.PerCl || (c%2 == 1 && len(ops) < 3*p.PerCl)) {
			if c%2 == 1 {
				// a watcher polls densely (listings are cheap): three times the calls of a mutating client, shorter pauses
				ops = append(ops, COp{K: "hlist", A: watchDirs[r.Intn(len(watchDirs))], Cl: c})
				continue
			}
			switch v := r.Intn(12); {
			case v < 4:
				ops = append(ops, COp{K: "mkdir", A: watchNames[r.Intn(len(watchNames))], Perm: 0o755, Cl: c})
			case v < 8:
				ops = append(ops, COp{K: "rename", A: watchNames[r.Intn(len(watchNames))], B: watchNames[r.Intn(len(watchNames))], Cl: c})
			case v < 9:
				ops = append(ops, COp{K: "mkdirall", A: path.Join(watchNames[r.Intn(len(watchNames))], "deep", "er"), Perm: 0o755, Cl: c})
			case v < 10:
				ops = append(ops, COp{K: "removeall", A: watchNames[r.Intn(len(watchNames))], Cl: c})
			case v < 11:
				ops = append(ops, COp{K: "remove", A: watchNames[r.Intn(len(watchNames))], Cl: c})
			default:
				ops = append(ops, COp{K: "hlist", A: watchDirs[r.Intn(len(watchDirs))], Cl: c})
			}
		}
		for len(ops) < p.PerCl {
			if p.Log && r.Intn(3) == 0 {
				ops = append(ops, COp{K: "logwrite", Data: fmt.Sprintf("<c%d-%02d>", c, len(ops)), Cl: c})
				continue
			}
			if r.Intn(7) == 0 {
				// lock files: exclusive creation of a shared name, and its removal
				ln := lockNames[r.Intn(len(lockNames))]
				if r.Intn(3) == 0 {
					ops = append(ops, COp{K: "remove", A: ln, Cl: c})
				} else {
					ops = append(ops, COp{K: "excl", A: ln, Cl: c})
				}
				continue
			}
			if p.Log && r.Intn(8) == 0 {
				// other calls on the shared handle: they may move its cursor, never where an O_APPEND write lands
				ops = append(ops, COp{K: "logseek", Uid: r.Intn(40), Gid: r.Intn(4), Cl: c})
				continue
			}
			switch v := r.Intn(20); {
			case v < 5: // create + write + close of a private file in a stable directory
				nfile++
				name := fmt.Sprintf("%s/c%d-f%d", stableDirs[r.Intn(2)], c, nfile)
				data := fmt.Sprintf("content-of-%s-%s", name, strings.Repeat("x", r.Intn(900)))
				ops = append(ops, COp{K: "create", A: name, Cl: c})
				if r.Intn(6) != 0 {
					ops = append(ops, COp{K: "hwrite", Data: data, Cl: c})
				}
				ops = append(ops, COp{K: "hclose", Cl: c})
				mine = append(mine, name)
			case v < 8:
				ops = append(ops, COp{K: "read", A: stableFiles[r.Intn(3)], Cl: c})
			case v < 9 && len(mine) > 0:
				ops = append(ops, COp{K: "read", A: mine[r.Intn(len(mine))], Cl: c})
			case v < 11:
				ops = append(ops, COp{K: "mkdir", A: volatileNames[r.Intn(len(volatileNames))], Perm: 0o755, Cl: c})
			case v < 12:
				ops = append(ops, COp{K: "mkdirall", A: path.Join(volatileNames[r.Intn(len(volatileNames))], "deep", "er"), Perm: 0o755, Cl: c})
			case v < 14:
				ops = append(ops, COp{K: "rename", A: volatileNames[r.Intn(len(volatileNames))], B: volatileNames[r.Intn(len(volatileNames))], Cl: c})
			case v < 15:
				ops = append(ops, COp{K: "removeall", A: volatileNames[r.Intn(len(volatileNames))], Cl: c})
			case v < 16:
				ops = append(ops, COp{K: "remove", A: volatileNames[r.Intn(len(volatileNames))], Cl: c})
			case v < 17:
				t := stableFiles[r.Intn(3)]
				switch r.Intn(3) {
				case 0:
					ops = append(ops, COp{K: "chmod", A: t, Perm: perms[r.Intn(len(perms))], Cl: c})
				case 1:
					ops = append(ops, COp{K: "chown", A: t, Uid: 1000 + r.Intn(50), Gid: 2000 + r.Intn(50), Cl: c})
				case 2:
					ops = append(ops, COp{K: "chtimes", A: t, T: (1600000000 + int64(r.Intn(1000))) * 1e9, Cl: c})
				}
			case v < 18:
				ops = append(ops, COp{K: "stat", A: append(append([]string{}, volatileNames...), stableFiles...)[r.Intn(len(volatileNames)+3)], Cl: c})
			case v < 19 && p.Log:
				ops = append(ops, COp{K: "logwrite", Data: fmt.Sprintf("<c%d-%02d>", c, len(ops)), Cl: c})
			default:
				if p.Log && r.Intn(2) == 0 {
					ops = append(ops, COp{K: "logwrite", Data: fmt.Sprintf("<c%d-%02d>", c, len(ops)), Cl: c})
				} else {
					ops = append(ops, COp{K: "list", A: append([]string{"/"}, stableDirs...)[r.Intn(3)], Cl: c})
				}
			}
		}
		progs[c] = ops
	}
	return progs
}

type clientState struct {
	h interface {
		Write([]byte) (int, error)
		Close() error
	}
	log  afero.File
	dirs map[string]afero.File // directory handles opened before the clients started (watch histories)
}

func execCOp(rig *Rig, cs *clientState, o COp) COut {
	stepBegin()
	f := rig.FS
	fail2 := func(err error) COut { return COut{Err: err.Error()} }
	switch o.K {
	case "mkdir":
		if err := f.Mkdir(o.A, os.FileMode(o.Perm)); err != nil {
			return fail2(err)
		}
	case "mkdirall":
		if err := f.MkdirAll(o.A, os.FileMode(o.Perm)); err != nil {
			return fail2(err)
		}
	case "remove":
		if err := f.Remove(o.A); err != nil {
			return fail2(err)
		}
	case "removeall":
		if err := f.RemoveAll(o.A); err != nil {
			return fail2(err)
		}
	case "rename":
		if err := f.Rename(o.A, o.B); err != nil {
			return fail2(err)
		}
	case "chmod":
		if err := f.Chmod(o.A, os.FileMode(o.Perm)); err != nil {
			return fail2(err)
		}
	case "chown":
		if err := f.Chown(o.A, o.Uid, o.Gid); err != nil {
			return fail2(err)
		}
	case "chtimes":
		if err := f.Chtimes(o.A, time.Unix(0, o.T), time.Unix(0, o.T)); err != nil {
			return fail2(err)
		}
	case "stat":
		fi, err := f.Stat(o.A)
		if err != nil {
			return fail2(err)
		}
		e := infoToEntry(fi)
		return COut{OK: true, Kind: e.Kind, Size: e.Size, Perm: e.Perm, Uid: e.Uid}
	case "list":
		n, err := listNames(f, o.A)
		if err != nil {
			return fail2(err)
		}
		return COut{OK: true, Names: n}
	case "hlist":
		h := cs.dirs[o.A]
		if h == nil {
			return fail2(errors.New("harness: no held handle"))
		}
		n, err := h.Readdirnames(-1)
		if err != nil {
			return fail2(err)
		}
		sort.Strings(n)
		return COut{OK: true, Names: n}
	case "read":
		// the whole file in ONE Read call: a stream that is consumed over several calls keeps the drive between them, and any
		// concurrent writer then deadlocks the instance (open finding partial-read-holds-drive, reported by its witness)
		h, err := f.Open(o.A)
		if err != nil {
			return fail2(err)
		}
		buf := make([]byte, 1<<18)
		var b []byte
		for {
			n, err := h.Read(buf)
			b = append(b, buf[:n]...)
			if err != nil {
				if err.Error() != "EOF" {
					h.Close()
					return fail2(err)
				}
				break
			}
		}
		if err := h.Close(); err != nil {
			return fail2(err)
		}
		return COut{OK: true, Sum: sum(b)}
	case "excl":
		h, err := f.OpenFile(o.A, os.O_WRONLY|os.O_CREATE|os.O_EXCL, 0o644)
		if err != nil {
			return fail2(err)
		}
		if err := h.Close(); err != nil {
			return fail2(err)
		}
	case "create":
		h, err := f.Create(o.A)
		if err != nil {
			return fail2(err)
		}
		cs.h = h
	case "hwrite":
		if cs.h == nil {
			return COut{Err: "no handle"}
		}
		if _, err := cs.h.Write([]byte(o.Data)); err != nil {
			return fail2(err)
		}
	case "logwrite":
		if cs.log == nil {
			return COut{Err: "no shared handle"}
		}
		n, err := cs.log.Write([]byte(o.Data))
		if err != nil {
			return fail2(err)
		}
		if n != len(o.Data) {
			return COut{Err: fmt.Sprintf("short write %d of %d", n, len(o.Data))}
		}
	case "logseek":
		if cs.log == nil {
			return COut{Err: "no shared handle"}
		}
		switch o.Gid {
		case 0:
			if _, err := cs.log.Seek(int64(o.Uid), io.SeekStart); err != nil {
				return fail2(err)
			}
		case 1:
			if _, err := cs.log.Seek(0, io.SeekCurrent); err != nil {
				return fail2(err)
			}
		case 2:
			if _, err := cs.log.Stat(); err != nil {
				return fail2(err)
			}
		default:
			// flushes what has been appended so far; the appends of other clients go on meanwhile
			if err := cs.log.Sync(); err != nil {
				return fail2(err)
			}
		}
	case "logclose":
		if err := cs.log.Close(); err != nil {
			return fail2(err)
		}
	case "hclose":
		if cs.h == nil {
			return COut{Err: "no handle"}
		}
		err := cs.h.Close()
		cs.h = nil
		if err != nil {
			return fail2(err)
		}
	}
	return COut{OK: true}
}

func concRun(prop, tier string, c Case, w *Worker) (res Result) {
	var p concP
	_ = json.Unmarshal(c.P, &p)
	if p.Witness != "" {
		return concWitness(p, c, w)
	}
	if c.Kind == "shared-read-handle" {
		return rdShareRun(p, c, w)
	}
	// GOMAXPROCS is fixed per worker process by the orchestrator (2, 4 or 16 by shard): switching it in-process crashed the
	// race-detector runtime (SIGSEGV in runtime.startTheWorld) about once in a thousand histories - a harness artefact
	p.Procs = runtime.GOMAXPROCS(0)
	cfg := p.Cfg
	res.setAdd("configs", cfg.String())
	res.setAdd("gomaxprocs", fmt.Sprint(p.Procs))
	dir := w.NewDir("c11")
	rig, err := NewRig(dir, cfg)
	if err != nil {
		res.Verdict, res.Msg = "inconclusive", "rig: "+err.Error()
		return
	}
	cfg = rig.Cfg
	if err := rig.Init(); err != nil {
		res.Verdict, res.Msg = "inconclusive", "init: "+err.Error()
		return
	}
	// setup (sequential): stable directories and files
	init := NewModel()
	setup := []Op{{K: "mkdir", A: "/s1", Perm: 0o755}, {K: "mkdir", A: "/s2", Perm: 0o755}}
	for i, sf := range stableFiles {
		setup = append(setup, Op{K: "create", A: sf, Len: []int{700, 0, 5000}[i], Dist: "text", DSeed: uint64(i) + 1})
	}
	setup = append(setup, Op{K: "mkdir", A: "/va", Perm: 0o755}, Op{K: "mkdir", A: "/s1/v_", Perm: 0o700})
	for _, op := range setup {
		if out := execOp(rig, op); !out.OK {
			res.Verdict, res.Msg = "inconclusive", fmt.Sprintf("setup %s: %s", op, out.Err)
			rig.Close()
			return
		}
		applyModel(init, op)
	}
	rig.LocksSettled()
	if p.Reopened {
		// clients run against an instance whose index was rebuilt from the tape (root stored as "", names relative)
		rig.Close()
		d2 := w.NewDir("c11r")
		if err := CloneDir(dir, d2, false); err != nil {
			res.Verdict, res.Msg = "inconclusive", err.Error()
			return
		}
		rig, err = NewRig(d2, cfg)
		if err != nil {
			res.Verdict, res.Msg = "inconclusive", "rig2: "+err.Error()
			return
		}
		if err := rig.Init(); err != nil {
			res.Verdict, res.Msg = "inconclusive", "reopen: "+err.Error()
			rig.Close()
			return
		}
		dir = d2
	}
	defer rig.Close()
	// adopt attributes of the setup entries so that stat outputs can be compared
	t0, err := WalkTree(rig.FS, true)
	if err != nil {
		res.Verdict, res.Msg = "inconclusive", "setup walk: "+err.Error()
		return
	}
	rig.LocksSettled()
	if ds := init.CompareAndAdopt(t0); len(ds) > 0 {
		res.Verdict, res.Msg = "inconclusive", "setup differs from the model: "+shortList(ds, 4)
		return
	}
	for _, n := range init.N {
		n.Uid, n.Gid = 0, 0 // owners are compared only after a chown
	}
	r := newRand(c.Seed)
	progs := genPrograms(r, p)
	// schedule perturbation
	var prng sync.Mutex
	pr := newRand(c.Seed ^ 0x5bd1e995)
	jitter := func(max int) {
		prng.Lock()
		v := pr.Intn(100)
		d := pr.Intn(max + 1)
		prng.Unlock()
		switch {
		case v < 40:
		case v < 70:
			runtime.Gosched()
		default:
			time.Sleep(time.Duration(d) * time.Microsecond)
		}
	}
	rig.Seams.mu.Lock()
	rig.Seams.logGor = true
	rig.Seams.perturb = func(point string) {
		switch point {
		case "openr", "closer", "closew", "openw":
			jitter(1500)
		case "dread":
			prng.Lock()
			v := pr.Intn(40)
			prng.Unlock()
			if v == 0 {
				jitter(300)
			}
		}
	}
	rig.Seams.mu.Unlock()
	initOpen := map[int]openH{}
	var logH afero.File
	if p.Log {
		logH, err = rig.FS.OpenFile("/s1/log", os.O_WRONLY|os.O_CREATE|os.O_APPEND, 0o644)
		if err != nil {
			res.Verdict, res.Msg = "inconclusive", "opening the shared handle: "+err.Error()
			return
		}
		init.N["/s1/log"] = &MNode{Perm: 0o644, Data: []byte{}}
		initOpen[-1] = openH{Path: "/s1/log"}
	}
	var clock atomic.Int64
	var mu sync.Mutex
	var hist []porcupine.Operation
	if logH != nil {
		// a first record puts the handle into write mode before the clients start: a Seek on a handle still in read mode starts
		// streaming the file and keeps the drive (the open finding partial-read-holds-drive), which is not this case's subject
		first := COp{K: "logwrite", Data: "<c99-00>", Cl: p.Clients}
		call := clock.Add(1)
		out := execCOp(rig, &clientState{log: logH}, first)
		hist = append(hist, porcupine.Operation{ClientId: p.Clients, Input: first, Call: call, Output: out, Return: clock.Add(1)})
	}
	heldDirs := make([]map[string]afero.File, p.Clients)
	if p.Watch {
		for cl := range heldDirs {
			heldDirs[cl] = map[string]afero.File{}
			for _, d := range watchDirs {
				if heldDirs[cl][d] != nil {
					continue
				}
				h, err := rig.FS.Open(d)
				if err != nil {
					res.Verdict, res.Msg = "inconclusive", "opening a directory handle: "+err.Error()
					return
				}
				heldDirs[cl][d] = h
			}
		}
		res.count("histories_with_held_directory_handles", 1)
	}
	gids := make([]int64, p.Clients)
	var wg sync.WaitGroup
	start := make(chan struct{})
	for cl := 0; cl < p.Clients; cl++ {
		wg.Add(1)
		go func(cl int) {
			defer wg.Done()
			gids[cl] = gid()
			cs := &clientState{dirs: heldDirs[cl]}
			if logH != nil {
				cs.log = logH
			}
			<-start
			for _, op := range progs[cl] {
				if op.K == "hlist" {
					jitter(400)
				} else {
					jitter(2000)
				}
				call := clock.Add(1)
				out := execCOp(rig, cs, op)
				ret := clock.Add(1)
				mu.Lock()
				hist = append(hist, porcupine.Operation{ClientId: cl, Input: op, Call: call, Output: out, Return: ret})
				mu.Unlock()
			}
			if cs.h != nil {
				_ = cs.h.Close()
			}
		}(cl)
	}
	note("C11 %d clients x %d calls, procs=%d reopened=%v cfg=%s", p.Clients, p.PerCl, p.Procs, p.Reopened, cfg)
	close(start)
	wg.Wait()
	for _, m := range heldDirs {
		for _, h := range m {
			_ = h.Close()
		}
	}
	rig.Seams.mu.Lock()
	rig.Seams.perturb = nil
	gl := append([]int64(nil), rig.Seams.persistGor...)
	rig.Seams.logGor = false
	rig.Seams.mu.Unlock()
	var flat []string
	describe := func() []string {
		sort.Slice(hist, func(i, j int) bool { return hist[i].Call < hist[j].Call })
		var s []string
		for _, o := range hist {
			s = append(s, fmt.Sprintf("[%d,%d] %s", o.Call, o.Return, concModel.DescribeOperation(o.Input, o.Output)))
		}
		return s
	}
	viol := func(sig, format string, a ...any) {
		res.violate("c11|"+sig, fmt.Sprintf("[%s clients=%d procs=%d reopened=%v] ", cfg, p.Clients, p.Procs, p.Reopened)+fmt.Sprintf(format, a...))
		res.Detail = map[string]any{"cfg": cfg, "params": p, "history": describe()}
	}
	logContent := ""
	if logH != nil {
		call := clock.Add(1)
		out := execCOp(rig, &clientState{log: logH}, COp{K: "logclose", Cl: p.Clients})
		ret := clock.Add(1)
		if held := rig.LocksSettled(); len(held) > 0 {
			viol("locks-held", "the shared handle was closed but the instance still holds %v", held)
			return
		}
		if out.OK {
			b, err := afero.ReadFile(rig.FS, "/s1/log")
			rig.LocksSettled()
			if err != nil {
				viol("log-read", "reading the shared log after its handle was closed: %v", err)
				return
			}
			logContent = string(b)
		}
		hist = append(hist, porcupine.Operation{ClientId: p.Clients, Input: COp{K: "logclose", Cl: p.Clients, Data: logContent}, Call: call, Output: out, Return: ret})
	}
	if held := rig.LocksSettled(); len(held) > 0 {
		viol("locks-held", "all clients returned but the instance still holds %v", held)
		return
	}
	// final tree as the last operation of the history
	ft, err := WalkTree(rig.FS, true)
	rig.LocksSettled()
	if err != nil {
		viol("final-walk", "walking the filesystem after the clients finished: %v", err)
		return
	}
	for _, o := range hist {
		res.count("calls", 1)
		res.count("calls_"+o.Input.(COp).K, 1)
		if o.Output.(COut).OK {
			res.count("calls_ok", 1)
		}
	}
	if logH != nil {
		// appends through the shared handle: every record carries a unique value, so the content itself is the order of the
		// appends - decided directly (exactly once, never torn, real-time order) instead of by search, and the appends leave
		// the searched history (n concurrent appends to one buffer would cost the checker n! orders)
		sig, msg, n := logMonitor(hist, logContent)
		res.count("log_records_checked", int64(n))
		if sig != "" {
			viol(sig, "%s", msg)
			return
		}
		kept := hist[:0:0]
		for _, o := range hist {
			if k := o.Input.(COp).K; k != "logwrite" && k != "logseek" {
				kept = append(kept, o)
			} else if k == "logseek" && !o.Output.(COut).OK {
				viol("log-seek-failed", "Seek / Stat on the shared, open handle failed: %s", o.Output.(COut).Err)
				return
			}
		}
		hist = kept
	}
	call := clock.Add(1)
	hist = append(hist, porcupine.Operation{ClientId: p.Clients, Input: COp{K: "snapshot", Cl: p.Clients}, Call: call, Output: COut{OK: true, Tree: ft}, Return: clock.Add(1)})
	m := concModel
	m.Init = func() interface{} {
		o := map[int]openH{}
		for k, v := range initOpen {
			o[k] = v
		}
		return &cState{M: init.Clone(), Open: o}
	}
	beat()
	cr, _ := porcupine.CheckOperationsVerbose(m, hist, 60*time.Second)
	beat()
	switch cr {
	case porcupine.Illegal:
		viol("not-linearizable", "no sequential order of the %d recorded calls (respecting real time) explains their outcomes and the final tree", len(hist)-1)
		return
	case porcupine.Unknown:
		res.Verdict, res.Msg = "inconclusive", "linearizability check timed out"
		return
	}
	// the final state is still reproducible from the tape
	reb, err := walkVia(w, cfg, dir, false, "c11reb")
	if err != nil {
		if strings.HasPrefix(err.Error(), "harness:") {
			res.Verdict, res.Msg = "inconclusive", err.Error()
			return
		}
		viol("rebuild-error", "rebuilding the index from the tape after the concurrent run fails: %v", err)
		return
	}
	if ds := DiffTrees(ft, reb, "live", "rebuilt", true); len(ds) > 0 {
		viol("rebuild-differs", "the final state is not reproducible from the tape: %s", shortList(ds, 5))
		return
	}
	// interleaving signature: order in which clients got through to the index store
	gmap := map[int64]string{}
	for i, g := range gids {
		gmap[g] = fmt.Sprint(i)
	}
	last := ""
	for _, g := range gl {
		s, ok := gmap[g]
		if !ok {
			s = "r" // a streaming restore goroutine
		}
		if s != last {
			flat = append(flat, s)
			last = s
		}
	}
	sig := sum([]byte(strings.Join(flat, ",")))
	res.setAdd("interleavings", sig)
	overlap := 0
	for i := range hist {
		for j := i + 1; j < len(hist); j++ {
			if hist[i].ClientId != hist[j].ClientId && hist[i].Call < hist[j].Return && hist[j].Call < hist[i].Return {
				overlap++
			}
		}
	}
	res.count("overlapping_call_pairs", int64(overlap))
	res.count("client_switches", int64(len(flat)))
	res.count("histories_linearizable", 1)
	res.NonTrivial = overlap >= 3 && len(flat) >= p.Clients
	res.Key = sig + sum([]byte(strings.Join(describe(), "\n")))
	res.Sample = map[string]any{"cfg": cfg.String(), "clients": p.Clients, "procs": p.Procs, "reopened": p.Reopened, "history": describe(), "switch_sequence": strings.Join(flat, "")}
	return
}

// concWitness: open finding O1 - a handle that consumed part of a file keeps the drive; any writer then deadlocks the instance.
// The witness is run in a way that does not hang the worker: the blocked call runs in its own goroutine and the lock hooks are read.
func concWitness(p concP, c Case, w *Worker) (res Result) {
	dir := w.NewDir("c11w")
	rig, err := NewRig(dir, p.Cfg)
	if err != nil {
		res.Verdict, res.Msg = "inconclusive", err.Error()
		return
	}
	if err := rig.Init(); err != nil {
		res.Verdict, res.Msg = "inconclusive", err.Error()
		return
	}
	big := Op{K: "create", A: "/big", Len: 300000, Dist: "random", DSeed: 9}
	if out := execOp(rig, big); !out.OK {
		res.Verdict, res.Msg = "inconclusive", out.Err
		return
	}
	rig.LocksSettled()
	h, err := rig.FS.Open("/big")
	if err != nil {
		res.Verdict, res.Msg = "inconclusive", err.Error()
		return
	}
	buf := make([]byte, 10)
	if _, err := h.Read(buf); err != nil {
		res.Verdict, res.Msg = "inconclusive", err.Error()
		return
	}
	done := make(chan error, 1)
	go func() { done <- rig.FS.Mkdir("/d", 0o755) }()
	select {
	case <-done:
		_ = h.Close()
		rig.Close()
		res.NonTrivial = true
		res.Sample = "partial read followed by Mkdir from another goroutine completed"
		return
	case <-time.After(3 * time.Second):
	}
	held := rig.LocksHeld()
	buf2 := make([]byte, 1<<20)
	n := runtime.Stack(buf2, true)
	dl, summary := classifyDump(string(buf2[:n]))
	if (dl || len(held) > 0) && strings.Contains(summary, "GetWriter") {
		res.violate("c11|witness:partial-read-holds-drive|deadlock", fmt.Sprintf("after Read(10) on an open 300000-byte file, Mkdir from a second goroutine does not return: locks held %v; the reader's Close would block on the I/O lock as well", held))
	}
	// leave the blocked goroutines behind: this worker process exits after its shard; drain the stream so that they finish
	go func() {
		b := make([]byte, 1<<16)
		for {
			if _, err := h.Read(b); err != nil {
				return
			}
		}
	}()
	select {
	case <-done:
	case <-time.After(20 * time.Second):
	}
	return
}

var logRecRe = regexp.MustCompile(`^<c[0-9]+-[0-9]+>`)

// logMonitor decides the appends made through the shared O_APPEND handle from the content they left behind.
func logMonitor(hist []porcupine.Operation, content string) (sig, msg string, n int) {
	type wr struct {
		call, ret int64
		ok        bool
		pos       int
	}
	ws := map[string]*wr{}
	for _, o := range hist {
		in := o.Input.(COp)
		if in.K != "logwrite" {
			continue
		}
		ws[in.Data] = &wr{call: o.Call, ret: o.Return, ok: o.Output.(COut).OK, pos: -1}
		if !o.Output.(COut).OK {
			return "log-append-failed", fmt.Sprintf("appending %s through the shared, open handle failed: %s", in.Data, o.Output.(COut).Err), len(ws)
		}
	}
	rest, idx := content, 0
	var order []string
	for len(rest) > 0 {
		m := logRecRe.FindString(rest)
		if m == "" {
			return "log-torn", fmt.Sprintf("the shared log is not a sequence of whole records at byte %d: %q", len(content)-len(rest), clip(rest, 60)), len(ws)
		}
		w, known := ws[m]
		if !known {
			return "log-foreign", fmt.Sprintf("the shared log holds %s, which nobody appended", m), len(ws)
		}
		if w.pos >= 0 {
			return "log-duplicate", fmt.Sprintf("the shared log holds %s twice", m), len(ws)
		}
		w.pos = idx
		order = append(order, m)
		idx++
		rest = rest[len(m):]
	}
	for k, w := range ws {
		if w.ok && w.pos < 0 {
			return "log-lost", fmt.Sprintf("the append of %s returned success, the handle was closed without error, and the record is not in the file (%d of %d records present)", k, len(order), len(ws)), len(ws)
		}
	}
	// real time: a record whose append returned before another append was called precedes it
	for i := 0; i < len(order); i++ {
		for j := i + 1; j < len(order); j++ {
			a, b := ws[order[i]], ws[order[j]]
			if b.ret < a.call {
				return "log-order", fmt.Sprintf("%s precedes %s in the shared log although the append of %s had returned before that of %s was called", order[i], order[j], order[j], order[i]), len(ws)
			}
		}
	}
	return "", "", len(ws)
}

func clip(s string, n int) string {
	if len(s) > n {
		return s[:n] + "..."
	}
	return s
}

func init() {
	register(&Engine{Name: "conc", Props: []string{"C11"}, Cases: concCases, Run: concRun})
	propMeta["C11"] = PropMeta{Level: "exploration",
		Rule:        "per case 2..8 client goroutines run generated programs (3..6 API calls each: create/write/close of private files in shared directories, whole-file reads of shared files, mkdir, mkdirall, rename, remove, removeall on a small set of shared names with SQL wildcard characters, chmod/chown/chtimes, stat, list) against one instance (fresh, or reopened with an index rebuilt from the tape), GOMAXPROCS in {2,4,16}, with PRNG-driven yields/sleeps before every client call and at the drive open/close and drive-read seams; the binary is built with -race (a report kills the worker and is charged to the case); every call is recorded with call/return stamps from one atomic counter at the client boundary, and the history plus the final tree is checked for linearizability with porcupine against the reference model (write-back at close); in half of the histories all clients also append unique records through ONE shared O_APPEND handle - those appends are decided from the file content they leave (every acknowledged record exactly once, never torn or interleaved, nothing foreign, order consistent with real time: a record whose append returned before another was called precedes it) and the content is handed to the model at the close of the handle; then all locks must be free and the final tree must equal a rebuild from the tape; non-trivial = at least 3 overlapping call pairs of different clients and at least as many client switches at the index store as clients; distinct = distinct (interleaving signature, history); clients also call Seek / Stat / Sync on the shared handle, (separate histories: one READ-ONLY handle shared by 3-8 clients - parallel ReadAt must return exactly the bytes at its offset, Stat the size, and the one client that reads sequentially must see the file in order with a cursor equal to what it has read) and create lock files (OpenFile O_CREATE|O_EXCL + Close on three shared names) and remove them; watch histories (60 quick / 1500 thorough): every client holds directory handles on / and /s1 that were opened BEFORE the concurrent phase, every second client only lists through them (three times as many calls, short pauses) while the others mkdir / rename (also onto existing directories) / mkdirall / removeall / remove five shared names - calls that are several index updates each; a listing through a held handle has the model of a listing: it must be the directory at one moment of some sequential order",
		Assumptions: []string{"files are only read or rewritten through handles by clients for which the sequential model is unambiguous (shared files are never removed or renamed; private files are touched by their owner only): handle-versus-rename/remove shapes are sequential questions", "schedules the perturbed Go scheduler never produces are not explored", "a linearizability check that times out (60 s) is inconclusive"}}
}
