package main

import (
	"bytes"
	"encoding/json"
	"fmt"
	"io"
	"os"
	"strings"
)

// C14: an open file behaves like a byte array with a cursor (differential against the os.File-semantics handle model).

type HOp struct {
	K     string `json:"k"` // read readat seek write writeat writestring truncate sync stat
	N     int    `json:"n,omitempty"`
	Off   int64  `json:"off,omitempty"`
	Wh    int    `json:"wh,omitempty"`
	DSeed uint64 `json:"dseed,omitempty"`
}

func (o HOp) String() string {
	switch o.K {
	case "read":
		return fmt.Sprintf("Read(%d)", o.N)
	case "readat":
		return fmt.Sprintf("ReadAt(%d,%d)", o.N, o.Off)
	case "seek":
		return fmt.Sprintf("Seek(%d,%d)", o.Off, o.Wh)
	case "write":
		return fmt.Sprintf("Write(%d)", o.N)
	case "writestring":
		return fmt.Sprintf("WriteString(%d)", o.N)
	case "writeat":
		return fmt.Sprintf("WriteAt(%d,%d)", o.N, o.Off)
	case "truncate":
		return fmt.Sprintf("Truncate(%d)", o.Off)
	}
	return o.K
}

type handP struct {
	Cfg     Cfg    `json:"cfg"`
	Init    int    `json:"init"` // initial size; -1 = file does not exist
	Flag    int    `json:"flag"`
	Steps   int    `json:"steps"`
	Witness string `json:"witness,omitempty"`
	Ops     []HOp  `json:"ops,omitempty"`
	Giant   int64  `json:"giant,omitempty"` // sparse file of this length (more than 31 bits)
}

func handCases(prop, tier string, seed uint64) []Case {
	r := newRand(subSeed(seed, prop, tier))
	n, steps := 6000, 15
	if tier == "thorough" {
		n, steps = 80000, 30
	}
	cfgs := someCfgs(r, 8)
	if tier == "thorough" {
		cfgs = someCfgs(r, 40)
	}
	var cases []Case
	plainF := Cfg{Level: "fastest", RS: 20, WC: "file"}
	plainM := Cfg{Level: "fastest", RS: 20, WC: "memory"}
	wit := func(id string, cfg Cfg, init, flag int, ops []HOp) {
		pb, _ := json.Marshal(handP{Cfg: cfg, Init: init, Flag: flag, Witness: id, Ops: ops})
		cases = append(cases, Case{ID: "c14-witness-" + id, Seed: 7, Kind: "witness:" + id, P: pb})
	}
	pbm, _ := json.Marshal(handP{Cfg: plainM, Init: 13, Flag: os.O_RDWR, Ops: []HOp{{K: "write", N: 2, DSeed: 5}}})
	cases = append(cases, Case{ID: "c14-regress-memcache-inplace-write", Seed: 7, Kind: "random", P: pbm})
	wit("seek-past-eof-readmode", plainF, 10, os.O_RDONLY, []HOp{{K: "seek", Off: 15, Wh: 0}, {K: "seek", Off: 0, Wh: 1}})
	// scale: files and single calls beyond every internal staging size (tens of MiB), on handles in read mode and in write mode
	hugeN := 2
	if tier == "thorough" {
		hugeN = 6
	}
	for i := 0; i < hugeN; i++ {
		sz := 40<<20 + 5 + i*4099
		cfgH := []Cfg{plainF, plainM, {Comp: "lz4", Level: "fastest", RS: 64, WC: "file"}}[i%3]
		ops := []HOp{{K: "read", N: 36 << 20}, {K: "seek", Off: 0, Wh: 1}, {K: "readat", N: 35 << 20, Off: 100}, {K: "read", N: 1 << 20}, {K: "seek", Off: 5, Wh: 0}, {K: "read", N: sz + 7}, {K: "stat"}}
		fl := os.O_RDONLY
		if i%2 == 1 {
			fl = os.O_RDWR
			ops = []HOp{{K: "read", N: 33<<20 + 1}, {K: "write", N: 100, DSeed: 9}, {K: "seek", Off: 3, Wh: 0}, {K: "read", N: 39 << 20}, {K: "readat", N: 34 << 20, Off: 1 << 20}, {K: "seek", Off: 0, Wh: 2}, {K: "stat"}}
		}
		if i == 1 {
			// one write of 70 MiB into a new file (memory write cache), the buffer reused afterwards
			cfgH, sz, fl = plainM, -1, os.O_RDWR|os.O_CREATE
			ops = []HOp{{K: "write", N: 70 << 20, DSeed: 3}, {K: "write", N: 100, DSeed: 4}, {K: "readat", N: 4096, Off: 0}, {K: "seek", Off: 1 << 20, Wh: 0}, {K: "read", N: 8192}, {K: "stat"}}
		}
		pb, _ := json.Marshal(handP{Cfg: cfgH, Init: sz, Flag: fl, Ops: ops})
		cases = append(cases, Case{ID: fmt.Sprintf("c14-huge-%d", i), Seed: subSeed(seed, prop, "huge", fmt.Sprint(i)), Kind: "random", P: pb})
	}
	// a file whose length needs more than 31 bits (written sparsely: head, seek, tail), judged without holding its bytes
	giantN := 1
	if tier == "thorough" {
		giantN = 3
	}
	for i := 0; i < giantN; i++ {
		cfgG := []Cfg{{Comp: "zstandard", Level: "fastest", RS: 20, WC: "file"}, plainF, {Comp: "lz4", Level: "fastest", Enc: "age", RS: 64, WC: "file"}}[i%3]
		pb, _ := json.Marshal(handP{Cfg: cfgG, Init: -1, Witness: "", Giant: int64(1)<<31 + int64(i)*(int64(1)<<31) + int64(i*513)})
		cases = append(cases, Case{ID: fmt.Sprintf("c14-giant-%d", i), Seed: subSeed(seed, prop, "giant", fmt.Sprint(i)), Kind: "random", P: pb})
	}
	inits := []int{-1, 0, 1, 10, 511, 512, 513, 2000, 10241}
	for i := 0; i < n; i++ {
		cfg := cfgs[i%len(cfgs)]
		acc := []int{os.O_RDONLY, os.O_WRONLY, os.O_RDWR, os.O_RDWR}[r.Intn(4)]
		fl := acc
		if acc != os.O_RDONLY {
			if r.Intn(4) == 0 {
				fl |= os.O_TRUNC
			}
			if r.Intn(4) == 0 {
				fl |= os.O_APPEND
			}
		}
		init := inits[r.Intn(len(inits))]
		if init == 10241 {
			init = cfg.RS*512 + 1
		}
		big := i%25 == 24 // size thresholds: pipe and copy buffers, int conversions
		if big {
			init = []int{70001, 1<<20 + 5, 300000}[r.Intn(3)]
		}
		if init < 0 || r.Intn(3) == 0 {
			fl |= os.O_CREATE
		}
		if r.Intn(6) == 0 {
			fl |= os.O_SYNC
		}
		p := handP{Cfg: cfg, Init: init, Flag: fl, Steps: steps/2 + r.Intn(steps/2+1)}
		if i%40 == 39 {
			p.Steps *= 4 // long sequences on one handle
		}
		pb, _ := json.Marshal(p)
		cases = append(cases, Case{ID: fmt.Sprintf("c14-s%05d", i), Seed: subSeed(seed, prop, tier, fmt.Sprint(i)), Kind: "random", P: pb})
	}
	return cases
}

// giantRun: head + seek + tail leaves a file of p.Giant bytes; sizes, offsets and the bytes at both ends and in the middle must be
// those of a byte array, on the handle, after close on a fresh open, and after a rebuild of the index from the tape.
func giantRun(p handP, c Case, w *Worker) (res Result) {
	cfg := p.Cfg
	res.setAdd("configs", cfg.String())
	stepBudget.Store(60 * stepBudgetDefault)
	defer stepBudget.Store(stepBudgetDefault)
	dir := w.NewDir("c14g")
	rig, err := NewRig(dir, cfg)
	if err != nil {
		res.Verdict, res.Msg = "inconclusive", "rig: "+err.Error()
		return
	}
	defer func() { rig.Close() }()
	if err := rig.Init(); err != nil {
		res.violate("c14|giant|init", "Initialize: "+err.Error())
		return
	}
	size := p.Giant
	viol := func(sig, format string, a ...any) {
		res.violate("c14|giant|"+sig, fmt.Sprintf("[%s] file of %d bytes (head, Seek(%d), tail): ", cfg, size, size-4)+fmt.Sprintf(format, a...))
	}
	const name = "/giant"
	h, err := rig.FS.OpenFile(name, os.O_RDWR|os.O_CREATE, 0o644)
	if err != nil {
		viol("open", "OpenFile: %v", err)
		return
	}
	if n, err := h.Write([]byte("head")); err != nil || n != 4 {
		viol("write", "Write(head) = %d, %v", n, err)
		return
	}
	if off, err := h.Seek(size-4, io.SeekStart); err != nil || off != size-4 {
		viol("seek", "Seek(%d, start) = %d, %v", size-4, off, err)
		return
	}
	if n, err := h.Write([]byte("tail")); err != nil || n != 4 {
		viol("write", "Write(tail) = %d, %v", n, err)
		return
	}
	if off, err := h.Seek(0, io.SeekCurrent); err != nil || off != size {
		viol("seek", "Seek(0, current) after the tail = %d, %v; a byte array is at %d", off, err, size)
		return
	}
	if fi, err := h.Stat(); err != nil || fi.Size() != size {
		viol("stat", "handle Stat: size %d, err %v", sizeOfInfo(fi), err)
		return
	}
	if err := h.Close(); err != nil {
		viol("close", "Close: %v", err)
		return
	}
	rig.LocksSettled()
	res.count("giant_files", 1)
	check := func(rg *Rig, phase string) bool {
		fi, err := rg.FS.Stat(name)
		if err != nil || fi.Size() != size {
			viol(phase+"|stat", "%s: Stat size %d, err %v", phase, sizeOfInfo(fi), err)
			return false
		}
		f, err := rg.FS.Open(name)
		if err != nil {
			viol(phase+"|open", "%s: Open: %v", phase, err)
			return false
		}
		defer func() { _ = f.Close(); rg.LocksSettled() }()
		buf := make([]byte, 4)
		for _, at := range []struct {
			off  int64
			want string
		}{{0, "head"}, {1<<20 + 3, "\x00\x00\x00\x00"}, {size - 4, "tail"}} {
			n, err := f.ReadAt(buf, at.off)
			if n != 4 || (err != nil && err != io.EOF) || string(buf) != at.want {
				viol(phase+"|readat", "%s: ReadAt(4, %d) = %d, %v, %q; a byte array has %q there", phase, at.off, n, err, buf[:n], at.want)
				return false
			}
			res.count("giant_reads", 1)
		}
		if off, err := f.Seek(0, io.SeekEnd); err != nil || off != size {
			viol(phase+"|seekend", "%s: Seek(0, end) = %d, %v", phase, off, err)
			return false
		}
		return true
	}
	if !check(rig, "fresh open") {
		return
	}
	// after a rebuild of the index from the tape
	rig.LocksSettled()
	rig.Close()
	_ = os.Remove(rig.DB)
	nr, err := NewRig(dir, cfg)
	if err != nil {
		res.Verdict, res.Msg = "inconclusive", "rig: "+err.Error()
		return
	}
	rig = nr
	if err := rig.Init(); err != nil {
		viol("rebuild", "opening the tape with the index absent: %v", err)
		return
	}
	if !check(rig, "after rebuild") {
		return
	}
	res.NonTrivial = true
	res.Key = c.ID
	res.Sample = map[string]any{"cfg": cfg.String(), "size": size}
	return
}

func handRun(prop, tier string, c Case, w *Worker) (res Result) {
	var p handP
	_ = json.Unmarshal(c.P, &p)
	if p.Giant > 0 {
		return giantRun(p, c, w)
	}
	kind := "random"
	if p.Witness != "" {
		kind = "witness:" + p.Witness
	}
	cfg := p.Cfg
	res.setAdd("configs", cfg.String())
	res.setAdd("flags", flagStr(p.Flag))
	dir := w.NewDir("c14")
	rig, err := NewRig(dir, cfg)
	if err != nil {
		res.Verdict, res.Msg = "inconclusive", "rig: "+err.Error()
		return
	}
	defer rig.Close()
	cfg = rig.Cfg
	if err := rig.Init(); err != nil {
		res.violate("c14|"+kind+"|init", "Initialize: "+err.Error())
		return
	}
	var done []string
	res.Detail = map[string]any{"cfg": cfg, "init": p.Init, "flag": flagStr(p.Flag), "ops": &done}
	viol := func(sig, format string, a ...any) {
		res.violate("c14|"+kind+"|"+sig, fmt.Sprintf("[%s] init=%d flags=%s after %v: ", cfg, p.Init, flagStr(p.Flag), done)+fmt.Sprintf(format, a...))
	}
	model := NewModel()
	const name = "/f"
	if p.Init >= 0 {
		content := genContent(p.Init, dists[int(c.Seed%3)], c.Seed)
		h, err := rig.FS.Create(name)
		if err != nil {
			viol("setup", "Create: %v", err)
			return
		}
		if p.Init > 0 {
			if _, err := h.Write(content); err != nil {
				viol("setup", "Write: %v", err)
				return
			}
		}
		if err := h.Close(); err != nil {
			viol("setup", "Close: %v", err)
			return
		}
		model.N[name] = &MNode{Data: content, Perm: 0o666}
	}
	r := newRand(c.Seed ^ 0x9e3779b97f4a7c15)
	fh, err := rig.FS.OpenFile(name, p.Flag, 0o644)
	mo, node := model.Open(name, p.Flag, 0o644)
	done = append(done, "OpenFile("+flagStr(p.Flag)+")")
	if (err == nil) != mo.OK {
		viol("open|outcome", "OpenFile: stfs err=%v, reference ok=%v (%s)", err, mo.OK, mo.Why)
		if err == nil {
			fh.Close()
		}
		return
	}
	if err != nil {
		res.NonTrivial = false
		res.count("opens_rejected", 1)
		res.Sample = map[string]any{"cfg": cfg.String(), "init": p.Init, "flag": flagStr(p.Flag), "ops": done}
		res.Detail = nil
		return
	}
	mh := NewMHandle(node, p.Flag)
	// stfs is in "write mode" (content in the write cache) once a write-ish call succeeded, or right away for O_TRUNC on a non-empty file
	writeMode := p.Flag&os.O_TRUNC != 0 && mh.Write && p.Init > 0
	nsteps := p.Steps
	if len(p.Ops) > 0 {
		nsteps = len(p.Ops)
	}
	size := func() int64 { return int64(len(node.Data)) }
	pickOff := func() int64 {
		s := size()
		switch r.Intn(6) {
		case 0:
			return -1 - int64(r.Intn(5))
		case 1:
			return 0
		case 2:
			if s > 0 {
				return int64(r.Intn(int(s)))
			}
			return 0
		case 3:
			return s
		case 4:
			return s + 1 + int64(r.Intn(600))
		}
		if s > 1 {
			return s - 1
		}
		return 0
	}
	pickN := func() int {
		s := int(size())
		c := []int{0, 1, s - 1, s, s + 7, 100, 513, 40000, 1 << 20}
		n := c[r.Intn(len(c))]
		if n >= 40000 && s < 40000 && r.Intn(4) != 0 {
			n = 513
		}
		if n < 0 {
			n = 0
		}
		return n
	}
	effects := 0
	for step := 0; step < nsteps; step++ {
		var op HOp
		if len(p.Ops) > 0 {
			op = p.Ops[step]
		} else {
			ks := []string{"read", "read", "readat", "seek", "seek", "write", "write", "writeat", "writestring", "truncate", "sync", "stat"}
			op = HOp{K: ks[r.Intn(len(ks))]}
			switch op.K {
			case "read":
				op.N = pickN()
			case "readat":
				op.N, op.Off = pickN(), pickOff()
			case "seek":
				op.Wh = r.Intn(3)
				if r.Intn(40) == 0 {
					op.Wh = 7 + r.Intn(3) // invalid whence (3 and 4 are SEEK_DATA / SEEK_HOLE on Linux): must fail
				}
				tgt := pickOff()
				switch op.Wh {
				case 0:
					op.Off = tgt
				case 1:
					op.Off = tgt - mh.Pos
				case 2:
					op.Off = tgt - size()
				default:
					op.Off = tgt
					tgt = 0
				}
				// steer around open findings: in read mode a seek past the end loses the position; the memory write cache cannot hold a cursor past the end
				dst := tgt
				if dst > size() && !writeMode {
					continue
				}
			case "write", "writestring":
				op.N, op.DSeed = []int{0, 1, 7, 100, 513, 1500}[r.Intn(6)], r.Uint64()
				if op.N == 0 && !mh.Write {
					op.N = 1 // zero-length writes without write access are reference-ambiguous (the kernel accepts them)
				}
			case "writeat":
				op.N, op.Off, op.DSeed = []int{0, 1, 7, 100, 513}[r.Intn(5)], pickOff(), r.Uint64()
				if op.N == 0 && !mh.Write {
					op.N = 1
				}
				if mh.Append {
					continue // os.File refuses WriteAt on O_APPEND handles, in-memory references accept it: reference-ambiguous
				}
			case "truncate":
				op.Off = pickOff()
			}
		}
		done = append(done, op.String())
		res.count("handle_calls", 1)
		res.count("handle_"+op.K, 1)
		switch op.K {
		case "read":
			buf := make([]byte, op.N)
			n, err := fh.Read(buf)
			if n < 0 || n > op.N {
				viol("read|count-range", "Read returned n=%d for a %d-byte buffer", n, op.N)
				return
			}
			avail := size() - mh.Pos
			if avail < 0 {
				avail = 0
			}
			if !mh.Read {
				if err == nil {
					viol("read|permission", "Read on a handle without read access succeeded")
					return
				}
				break
			}
			if op.N == 0 {
				if err != nil || n != 0 {
					viol("read|zero", "Read with an empty buffer returned (%d,%v)", n, err)
					return
				}
				break
			}
			if err != nil && err != io.EOF {
				viol("read|error", "Read(%d) at offset %d of %d: %v", op.N, mh.Pos, size(), err)
				return
			}
			if avail == 0 {
				if n != 0 || err != io.EOF {
					viol("read|eof", "Read at end of file returned (%d,%v), want (0,EOF)", n, err)
					return
				}
				break
			}
			want := node.Data[mh.Pos:]
			if int64(n) > avail || !bytes.Equal(buf[:n], want[:n]) {
				viol("read|bytes", "Read(%d) at offset %d returned %d bytes (sum %s), reference has %s there", op.N, mh.Pos, n, sum(buf[:n]), sum(want[:min(int(avail), op.N)]))
				return
			}
			if n == 0 {
				viol("read|no-progress", "Read(%d) at offset %d of %d returned (0,%v)", op.N, mh.Pos, size(), err)
				return
			}
			full := avail
			if int64(op.N) < full {
				full = int64(op.N)
			}
			if int64(n) != full {
				viol("read|count", "Read(%d) at offset %d of %d returned %d bytes (err=%v), a byte-array file returns %d", op.N, mh.Pos, size(), n, err, full)
				return
			}
			if err == io.EOF && int64(n) != avail {
				viol("read|early-eof", "Read signalled EOF after %d of %d remaining bytes", n, avail)
				return
			}
			mh.Pos += int64(n)
			effects++
		case "readat":
			buf := make([]byte, op.N)
			n, err := fh.ReadAt(buf, op.Off)
			if n < 0 || n > op.N {
				viol("readat|count-range", "ReadAt returned n=%d for a %d-byte buffer", n, op.N)
				return
			}
			ho := mh.DoReadAt(op.N, op.Off)
			if !ho.OK {
				if err == nil && op.N > 0 {
					viol("readat|want-error", "ReadAt(%d,%d) succeeded, reference refuses", op.N, op.Off)
					return
				}
				break
			}
			if op.N == 0 {
				break
			}
			if err != nil && err != io.EOF {
				viol("readat|error", "ReadAt(%d,%d) size %d: %v", op.N, op.Off, size(), err)
				return
			}
			if n != ho.N || !bytes.Equal(buf[:n], ho.Data) {
				viol("readat|bytes", "ReadAt(%d,%d) returned %d bytes (sum %s), reference %d bytes (sum %s)", op.N, op.Off, n, sum(buf[:n]), ho.N, sum(ho.Data))
				return
			}
			if n < op.N && err == nil {
				viol("readat|short-without-error", "ReadAt returned %d < %d bytes without an error", n, op.N)
				return
			}
			effects++
		case "seek":
			pos, err := fh.Seek(op.Off, op.Wh)
			ho := mh.DoSeek(op.Off, op.Wh)
			if (err == nil) != ho.OK {
				viol("seek|outcome", "Seek(%d,%d) from %d size %d: stfs err=%v, reference ok=%v", op.Off, op.Wh, mh.Pos, size(), err, ho.OK)
				return
			}
			if err == nil && pos != ho.Off {
				viol("seek|offset", "Seek(%d,%d) returned %d, reference %d (size %d)", op.Off, op.Wh, pos, ho.Off, size())
				return
			}
		case "write", "writestring":
			data := genContent(op.N, "random", op.DSeed)
			var n int
			var err error
			if op.K == "write" {
				// the caller owns its buffer again as soon as Write returns: it is overwritten right away (io.Writer must not retain it)
				buf := append([]byte(nil), data...)
				n, err = fh.Write(buf)
				for i := range buf {
					buf[i] = 0xAA
				}
			} else {
				n, err = fh.WriteString(string(data))
			}
			if n < 0 || n > len(data) {
				viol(op.K+"|count-range", "%s returned n=%d for %d bytes", op.K, n, len(data))
				return
			}
			ho := mh.DoWrite(data)
			if (err == nil) != ho.OK {
				viol(op.K+"|outcome", "%s(%d): stfs err=%v, reference ok=%v", op.K, len(data), err, ho.OK)
				return
			}
			if err == nil {
				if n != len(data) {
					viol(op.K+"|short", "%s wrote %d of %d bytes without error", op.K, n, len(data))
					return
				}
				writeMode = true
				effects++
			}
		case "writeat":
			data := genContent(op.N, "random", op.DSeed)
			wbuf := append([]byte(nil), data...)
			n, err := fh.WriteAt(wbuf, op.Off)
			for i := range wbuf {
				wbuf[i] = 0x55
			}
			if n < 0 || n > len(data) {
				viol("writeat|count-range", "WriteAt returned n=%d for %d bytes", n, len(data))
				return
			}
			ho := mh.DoWriteAt(data, op.Off)
			if (err == nil) != ho.OK {
				viol("writeat|outcome", "WriteAt(%d,%d): stfs err=%v, reference ok=%v", len(data), op.Off, err, ho.OK)
				return
			}
			if err == nil {
				writeMode = true
				effects++
				// the cursor after WriteAt is reference-ambiguous: pin it
				tgt := size()
				if r.Intn(2) == 0 {
					tgt = int64(r.Intn(int(size()) + 1))
				}
				done = append(done, fmt.Sprintf("Seek(%d,0)", tgt))
				pos, err := fh.Seek(tgt, 0)
				mh.DoSeek(tgt, 0)
				if err != nil || pos != tgt {
					viol("seek|after-writeat", "Seek(%d,0) after WriteAt returned (%d,%v)", tgt, pos, err)
					return
				}
			}
		case "truncate":
			err := fh.Truncate(op.Off)
			ho := mh.DoTruncate(op.Off)
			if (err == nil) != ho.OK {
				viol("truncate|outcome", "Truncate(%d): stfs err=%v, reference ok=%v", op.Off, err, ho.OK)
				return
			}
			if err == nil {
				writeMode = true
				effects++
			}
		case "sync":
			if err := fh.Sync(); err != nil {
				viol("sync|error", "Sync: %v", err)
				return
			}
		case "stat":
			fi, err := fh.Stat()
			if err != nil {
				viol("stat|error", "Stat on the handle: %v", err)
				return
			}
			if fi.Size() != size() {
				viol("stat|size", "handle Stat().Size()=%d, reference %d", fi.Size(), size())
				return
			}
		}
	}
	done = append(done, "Close")
	if err := fh.Close(); err != nil {
		viol("close|error", "Close: %v", err)
		return
	}
	if c.Seed%3 == 0 {
		// calls on the closed handle: whatever they answer, the file that a fresh open sees must not change and no lock may stay behind
		// (writes through a closed handle are accepted by stfs and do change the file: outside the statement, noted in DESIGN.md)
		done = append(done, "[after Close: Seek Stat Sync Close Close]")
		_, _ = fh.Seek(0, io.SeekCurrent)
		_, _ = fh.Stat()
		_ = fh.Sync()
		_ = fh.Close()
		_ = fh.Close()
		rig.LocksSettled()
		res.count("sequences_with_calls_after_close", 1)
	}
	got, err := ReadAllFile(rig.FS, name)
	if err != nil {
		viol("after-close|read", "reading the file back after Close: %v", err)
		return
	}
	if !bytes.Equal(got, node.Data) {
		viol("after-close|bytes", "after Close a fresh open reads %d bytes (sum %s), reference has %d (sum %s)", len(got), sum(got), len(node.Data), sum(node.Data))
		return
	}
	fi, err := rig.FS.Stat(name)
	if err != nil || fi.Size() != size() {
		viol("after-close|size", "Stat after Close: size=%v err=%v, reference %d", fi, err, size())
		return
	}
	if held := rig.LocksSettled(); len(held) > 0 {
		viol("locks", "locks held after the sequence: %v", held)
		return
	}
	res.count("sequences", 1)
	res.NonTrivial = effects >= 3
	res.Key = sum([]byte(strings.Join(done, ",") + cfg.String() + fmt.Sprint(p.Init)))
	res.Detail = nil
	res.Sample = map[string]any{"cfg": cfg.String(), "init": p.Init, "flag": flagStr(p.Flag), "ops": done}
	return
}

func min(a, b int) int {
	if a < b {
		return a
	}
	return b
}

func init() {
	register(&Engine{Name: "handles", Props: []string{"C14"}, Cases: handCases, Run: handRun})
	propMeta["C14"] = PropMeta{Level: "exploration",
		Rule: "one handle-call sequence per case (Read, ReadAt, Seek with 3 whences, Write, WriteAt, WriteString, Truncate, Sync, Stat; offsets negative/0/inside/at/beyond end; buffers 0,1,size-1,size,size+7) on a file of 0..one record+1 bytes opened with a generated flag combination; every call's count, bytes, offset, error-ness and EOF signalling compared with an os.File-semantics byte-array model, then content and size after Close through a fresh open; non-trivial = at least 3 effective read/write calls; distinct = distinct (configuration, initial size, flags, call list); files of 40 MiB with single calls of 33-39 MiB (beyond every internal staging size), every Read has to return the full count of a byte-array file; 'giant' cases: head, Seek(2^31-4 or beyond), tail - sizes, offsets and the bytes at both ends and in the middle on a fresh open and after a rebuild, without holding the file's bytes",
		Assumptions: []string{"a full-count read that carries io.EOF together with its last bytes is accepted (io.Reader contract)", "the cursor after WriteAt is reference-ambiguous and is pinned by a Seek", "WriteAt on O_APPEND handles is reference-ambiguous and not generated", "op shapes of the open findings (in-place writes with the memory write cache, seeks past the end in read mode) only in their witness cases"}}
}
